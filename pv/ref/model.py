"""Reference interpreter of the documented meaning of PRQL's relational core.

A relation is an *array of tuples* with a frame.  Programs are the abstract
JSON-able trees produced by pv.gen.grel.  Where PRQL leaves behaviour to the
engine, the model either adopts the executing engine's (SQLite) convention or
raises Unspecified, in which case the case is not judged.
"""
import functools, math


class Unspecified(Exception):
    """The program's result depends on something PRQL does not determine."""


class ModelError(Exception):
    """The abstract program is not well-formed for the model (generator bug)."""


# ------------------------------------------------------------------ values

def is_num(v):
    return isinstance(v, (int, float)) and not isinstance(v, bool)


def norm(v):
    if isinstance(v, bool):
        return int(v)
    return v


def sort_key(v):
    v = norm(v)
    if v is None:
        return (0, 0)
    if isinstance(v, (int, float)):
        return (1, v)
    return (2, v)


def truth(v):
    """SQL three-valued: True / False / None."""
    if v is None:
        return None
    if isinstance(v, bool):
        return v
    if is_num(v):
        return v != 0
    raise Unspecified("truth value of text")


def cmp_vals(a, b):
    a, b = norm(a), norm(b)
    if isinstance(a, str) != isinstance(b, str):
        raise Unspecified("comparison across text/number")
    return (a > b) - (a < b)


# ------------------------------------------------------------------ relations

class Rel:
    def __init__(self, cols, rows, okeys=None, sort_exprs=None):
        self.cols = cols          # list of (qual, name); name may be None
        self.rows = rows          # list of tuples
        self.okeys = okeys        # None (unordered) or list of ints (tie classes, non-decreasing)
        # partial order: set when the left input of a right/full join was ordered. Parallel to
        # rows; an int for rows that come from a left row (their relative order is retained),
        # None for rows padded from the right side (their position is not specified)
        self.pokeys = None
        self.sort_exprs = sort_exprs   # [(desc, expr)] of the sort in effect (for range frames)
        self.colorder_unspec = False   # column ORDER not fixed by the documentation (after a non-aggregating group)

    def copy(self):
        r = Rel(list(self.cols), list(self.rows), None if self.okeys is None else list(self.okeys), self.sort_exprs)
        r.colorder_unspec = self.colorder_unspec
        return r


def lookup(cols, qual, name):
    if qual in ("this", "that"):
        # join condition: `this` = left input, `that` = right input (cols carry a side marker)
        side = getattr(cols, "nleft", None)
        if side is not None:
            rng = range(0, side) if qual == "this" else range(side, len(cols))
            hits = [i for i in rng if cols[i][1] == name]
            if len(hits) == 1:
                return hits[0]
            raise ModelError("reference %s.%s resolves to %d columns" % (qual, name, len(hits)))
    hits = [i for i, (q, n) in enumerate(cols) if n == name and (qual is None or q == qual)]
    if len(hits) != 1:
        raise ModelError("reference %s.%s resolves to %d columns in %r" % (qual, name, len(hits), cols))
    return hits[0]


# ------------------------------------------------------------------ expressions

AGG_FNS = ("sum", "min", "max", "average", "count", "count_distinct", "any", "all")
WIN_FNS = ("lag", "lead", "first", "last", "rank", "rank_dense", "row_number")


class Env:
    __slots__ = ("cols", "row", "rows", "win", "params")

    def __init__(self, cols, row=None, rows=None, win=None, params=None):
        self.cols, self.row, self.rows, self.win, self.params = cols, row, rows, win, params


FUNCS = {}      # user functions of the program being interpreted: name -> def


def agg(fn, vals, nrows):
    nn = [norm(v) for v in vals if v is not None]
    if fn == "count":
        return nrows
    if fn == "count_distinct":
        return len(set(nn))
    if fn == "sum":
        if not nn:
            return 0
        return sum(nn)
    if fn == "average":
        if not nn:
            return None
        return sum(nn) / float(len(nn))
    if fn == "min":
        return min(nn, key=sort_key) if nn else None
    if fn == "max":
        return max(nn, key=sort_key) if nn else None
    if fn == "any":   # bool_or; coalesce false
        ts = [truth(v) for v in nn]
        return int(any(ts)) if ts else 0
    if fn == "all":
        ts = [truth(v) for v in nn]
        return int(all(ts)) if ts else 1
    raise ModelError("agg " + fn)


def ev(e, env):
    k = e[0]
    if k == "col":
        return env.row[lookup(env.cols, e[1], e[2])]
    if k == "lit":
        return e[1]
    if k == "neg":
        v = ev(e[1], env)
        return None if v is None else -norm(v)
    if k == "pos":
        return ev(e[1], env)
    if k == "not":
        t = truth(ev(e[1], env))
        return None if t is None else (not t)
    if k == "bin":
        return ev_bin(e[1], e[2], e[3], env)
    if k == "case":
        for c, v in e[1]:
            if truth(ev(c, env)) is True:
                return ev(v, env)
        return None
    if k == "in":
        v, lo, hi = ev(e[1], env), ev(e[2], env), ev(e[3], env)
        return and3(cmp3(">=", v, lo), cmp3("<=", v, hi))
    if k == "param":
        return env.params[e[1]]
    if k == "call":
        f = FUNCS[e[1]]
        vals = {}
        for pn, a in zip(f["params"], e[2]):
            vals[pn] = ev(a, env)
        for n, d in f.get("named", []):
            vals[n] = ev((e[3] or {})[n], env) if n in (e[3] or {}) else ev(d, env)
        return ev(f["body"], Env(env.cols, env.row, env.rows, env.win, vals))
    if k == "agg":
        if env.win is not None:
            return ev_win_agg(e, env)
        if env.rows is None:
            raise ModelError("aggregate outside aggregation context")
        vals = [ev(e[2], Env(env.cols, r)) for r in env.rows] if e[2] is not None else [1] * len(env.rows)
        return agg(e[1], vals, len(env.rows))
    if k == "win":
        return ev_win_fn(e, env)
    raise ModelError("expr kind %r" % (k,))


def cmp3(op, a, b):
    if a is None or b is None:
        return None
    c = cmp_vals(a, b)
    return {"==": c == 0, "!=": c != 0, "<": c < 0, "<=": c <= 0, ">": c > 0, ">=": c >= 0}[op]


def and3(a, b):
    if a is False or b is False:
        return False
    if a is None or b is None:
        return None
    return True


def or3(a, b):
    if a is True or b is True:
        return True
    if a is None or b is None:
        return None
    return False


def is_null_lit(e):
    return e[0] == "lit" and e[1] is None


def ev_bin(op, l, r, env):
    if op in ("==", "!="):
        # comparison with the literal null tests null-ness
        if is_null_lit(r) or is_null_lit(l):
            other = l if is_null_lit(r) else r
            if is_null_lit(other):
                return op == "=="
            v = ev(other, env)
            return (v is None) if op == "==" else (v is not None)
    if op == "&&":
        return and3(truth(ev(l, env)), truth(ev(r, env)))
    if op == "||":
        return or3(truth(ev(l, env)), truth(ev(r, env)))
    if op == "??":
        a = ev(l, env)
        return a if a is not None else ev(r, env)
    a, b = ev(l, env), ev(r, env)
    if op in ("==", "!=", "<", "<=", ">", ">="):
        return cmp3(op, a, b)
    if a is None or b is None:
        return None
    a, b = norm(a), norm(b)
    if not (is_num(a) and is_num(b)):
        raise Unspecified("arithmetic on text")
    if op == "+":
        return chk(a + b)
    if op == "-":
        return chk(a - b)
    if op == "*":
        return chk(a * b)
    if op == "/":
        if b == 0:
            raise Unspecified("division by zero")
        return a / b if not (isinstance(a, float) or isinstance(b, float)) else float(a) / float(b)
    if op == "//":
        if b == 0:
            raise Unspecified("division by zero")
        q = abs(a) // abs(b) if isinstance(a, int) and isinstance(b, int) else math.floor(abs(a) / abs(b))
        q = q if (a >= 0) == (b >= 0) else -q
        return q
    if op == "%":
        if b == 0:
            raise Unspecified("modulo zero")
        if not (isinstance(a, int) and isinstance(b, int)):
            raise Unspecified("float modulo")
        m = abs(a) % abs(b)
        return m if a >= 0 else -m
    if op == "**":
        try:
            v = float(a) ** float(b)
        except (OverflowError, ZeroDivisionError):
            raise Unspecified("pow overflow")
        if isinstance(v, complex) or math.isinf(v) or math.isnan(v):
            raise Unspecified("pow domain")
        return v
    raise ModelError("op " + op)


def chk(v):
    if isinstance(v, int) and abs(v) > 2 ** 62:
        raise Unspecified("integer overflow")
    if isinstance(v, float) and (math.isinf(v) or math.isnan(v)):
        raise Unspecified("float overflow")
    return v


# ------------------------------------------------------------------ windows
# env.win = dict(rows=[row...] ordered partition, idx=i, keys=[okey class per row] or None,
#                frame=None | ("rows"|"range", lo, hi), rkeys=[numeric range key per row] or None)

def frame_rows(env):
    w = env.win
    rows, i = w["rows"], w["idx"]
    fr = w.get("frame")
    if fr is None:
        return rows, False      # whole partition
    kind, lo, hi = fr
    if kind == "rows":
        a = 0 if lo is None else max(0, i + lo)
        b = len(rows) - 1 if hi is None else min(len(rows) - 1, i + hi)
        sel = rows[a:b + 1] if a <= b else []
        # with ties in the order, which rows fall in a ROWS frame is not determined
        if w.get("keys") is not None and len(set(w["keys"])) != len(rows):
            ks = w["keys"]
            if not (a <= 0 and b >= len(rows) - 1):
                inside = set(range(a, b + 1)) if a <= b else set()
                for j in range(len(rows)):
                    for j2 in range(len(rows)):
                        if ks[j] == ks[j2] and ((j in inside) != (j2 in inside)):
                            return sel, True
                # also the current row's own position among its ties matters only via 'inside', covered above
        elif w.get("keys") is None and not (a <= 0 and b >= len(rows) - 1):
            return sel, True
        return sel, False
    if kind == "range":
        rk = w.get("rkeys")
        if rk is None:
            raise Unspecified("range frame without a single numeric sort key")
        cur = rk[i]
        if cur is None:
            raise Unspecified("range frame over NULL key")
        sel = []
        for j, r in enumerate(rows):
            v = rk[j]
            if v is None:
                raise Unspecified("range frame over NULL key")
            d = (v - cur) * w.get("rdir", 1)
            if (lo is None or d >= lo) and (hi is None or d <= hi):
                sel.append(r)
        return sel, False
    raise ModelError("frame kind")


RUN_FLAGS = set()     # facts about the current Interp.run that oracles use to name a root cause


def ev_win_agg(e, env):
    sel, undetermined = frame_rows(env)
    vals = [ev(e[2], Env(env.cols, r)) for r in sel] if e[2] is not None else [1] * len(sel)
    v = agg(e[1], vals, len(sel))
    if e[1] == "sum" and all(x is None for x in vals):
        # a windowed sum whose frame holds no non-NULL value: documented value 0 (SQL's SUM gives NULL)
        RUN_FLAGS.add("win_sum_all_null")
    if undetermined:
        # value may still be the same for every admissible choice only if frame covers all; be conservative
        raise Unspecified("window frame cuts through tied rows")
    return v


def ev_win_fn(e, env):
    w = env.win
    if w is None:
        raise ModelError("window function outside window context")
    fn, args = e[1], e[2]
    rows, i, keys = w["rows"], w["idx"], w.get("keys")
    ties = keys is not None and len(set(keys)) != len(rows)
    if fn == "row_number":
        if keys is None and len(rows) > 1:
            raise Unspecified("row_number without order")
        if ties and any(keys[j] == keys[i] for j in range(len(rows)) if j != i):
            raise Unspecified("row_number among ties")
        return i + 1
    if fn == "rank":
        if keys is None:
            return 1
        return 1 + sum(1 for k in keys if k < keys[i])
    if fn == "rank_dense":
        if keys is None:
            return 1
        return 1 + len({k for k in keys if k < keys[i]})
    if fn in ("lag", "lead"):
        off = args[0]
        j = i - off if fn == "lag" else i + off
        if keys is None and len(rows) > 1:
            raise Unspecified("lag/lead without order")
        if ties:
            # the neighbour is determined only if neither this row nor the target position is inside a tie class
            if any(keys[x] == keys[i] for x in range(len(rows)) if x != i):
                raise Unspecified("lag/lead among ties")
            if 0 <= j < len(rows) and any(keys[x] == keys[j] for x in range(len(rows)) if x != j):
                raise Unspecified("lag/lead onto a tie")
        if j < 0 or j >= len(rows):
            return None
        return ev(args[1], Env(env.cols, rows[j]))
    if fn in ("first", "last"):
        sel, undetermined = frame_rows(env)
        if undetermined:
            raise Unspecified("first/last over undetermined frame")
        if not sel:
            return None
        if keys is None and len(sel) > 1:
            raise Unspecified("first/last without order")
        j = 0 if fn == "first" else len(sel) - 1
        if ties:
            # determined only if the extreme row's tie class has one member in the frame, or all give the same value
            idxs = [rows.index(r) for r in sel]
            kx = keys[idxs[j]]
            cands = [r for r, ix in zip(sel, idxs) if keys[ix] == kx]
            vs = {repr(ev(args[0], Env(env.cols, r))) for r in cands}
            if len(vs) > 1:
                raise Unspecified("first/last among ties")
        return ev(args[0], Env(env.cols, sel[j]))
    raise ModelError("win fn " + fn)


# ------------------------------------------------------------------ transforms

def check_refs(e, cols):
    if not isinstance(e, (list, tuple)) or not e:
        return
    if e[0] == "col":
        lookup(cols, e[1], e[2])
        if len(e) > 3 and e[3] == "bare" and sum(1 for (_, n) in cols if n == e[2]) != 1:
            # printed without its qualifier: that is only the same reference while the name is unique
            # in the frame (a reduction step may have removed what made it unique)
            raise ModelError("bare reference %s is ambiguous in %r" % (e[2], cols))
        return
    if e[0] == "case":
        for c, v in e[1]:
            check_refs(c, cols)
            check_refs(v, cols)
        return
    if e[0] == "win":
        for a in e[2]:
            check_refs(a, cols)
        return
    if e[0] == "call":
        for a in e[2]:
            check_refs(a, cols)
        for a in (e[3] or {}).values():
            check_refs(a, cols)
        return
    for x in e[1:]:
        check_refs(x, cols)


def has_kind(e, kinds):
    if not isinstance(e, (list, tuple)) or not e:
        return False
    if e[0] in kinds:
        return True
    if e[0] == "case":
        return any(has_kind(c, kinds) or has_kind(v, kinds) for c, v in e[1])
    if e[0] == "win":
        return any(has_kind(a, kinds) for a in e[2] if isinstance(a, (list, tuple)))
    return any(has_kind(x, kinds) for x in e[1:] if isinstance(x, (list, tuple)))


def order_classes(rows, cols, keys):
    """Sort rows by keys [(desc, expr)], return (sorted rows, tie classes)."""
    kv = []
    for r in rows:
        env = Env(cols, r)
        kv.append(tuple(sort_key(ev(e, env)) for _, e in keys))
    descs = [bool(d) for d, _ in keys]

    def cmp(i, j):
        for a, b, d in zip(kv[i], kv[j], descs):
            if a[0] == 2 and b[0] == 1 or a[0] == 1 and b[0] == 2:
                raise Unspecified("mixed-type sort key")
            c = (a > b) - (a < b)
            if c:
                return -c if d else c
        return 0
    idx = sorted(range(len(rows)), key=functools.cmp_to_key(cmp))
    out_rows, classes = [], []
    cls = -1
    prev = None
    for i in idx:
        if prev is None or cmp(prev, i) != 0:
            cls += 1
        classes.append(cls)
        out_rows.append(rows[i])
        prev = i
    return out_rows, classes


def named_items(items, cols_in):
    """items: [[name|None, expr]] -> output column descriptors (qual, name)."""
    out = []
    for name, e in items:
        if name is not None:
            out.append((None, name))
        elif e[0] == "col":
            i = lookup(cols_in, e[1], e[2])
            out.append((cols_in[i][0], cols_in[i][1]))
        else:
            out.append((None, None))
    return out


def add_named(cols, new):
    """Append `new` columns; a new column un-names earlier columns of the same name."""
    cols = list(cols)
    for (q, n) in new:
        if n is not None:
            # columns of different relations of a join may share a name (they stay addressable by qualifier)
            cols = [((None, None) if (cn == n and (q is None or cq is None or cq == q)) else (cq, cn)) for (cq, cn) in cols]
        cols.append((q, n))
    return cols


def dedup_names(cols):
    """Names are unique per frame: a later column with the same name un-names the earlier one."""
    seen = {}
    cols = list(cols)
    for i, (q, n) in enumerate(cols):
        if n is None:
            continue
        if n in seen:
            j = seen[n]
            cols[j] = (None, None)
        seen[n] = i
    return cols


class JoinCols(list):
    nleft = None


class Interp:
    def __init__(self, db, lets=None):
        self.db = db                  # {table: {"cols": [names], "rows": [tuples]}}
        self.lets = {}                # name -> Rel (evaluated lazily in order)
        self.let_defs = lets or []

    def run(self, prog):
        self.lets = {}
        RUN_FLAGS.clear()
        FUNCS.clear()
        for f in prog.get("funcs", []):
            FUNCS[f["name"]] = f
        for name, pipe in prog.get("lets", []):
            self.lets[name] = self.pipeline(pipe)
        return self.pipeline(prog["main"])

    # -- sources
    def source(self, src, alias):
        k = src["k"]
        if k == "table":
            t = self.db[src["name"]]
            q = alias or src["name"]
            return Rel([(q, c) for c in t["cols"]], [tuple(r) for r in t["rows"]], None)
        if k == "let":
            r = self.lets[src["name"]].copy()
            q = alias or src["name"]
            r.cols = [(q, n) for (_, n) in r.cols]
            return r
        if k == "lit":
            q = alias
            return Rel([(q, c) for c in src["cols"]], [tuple(r) for r in src["rows"]], None)
        if k == "pipe":
            r = self.pipeline(src["pipe"])
            if alias:
                r.cols = [(alias, n) for (_, n) in r.cols]
            return r
        raise ModelError("source " + k)

    def pipeline(self, pipe, start=None):
        rel = start
        for t in pipe:
            rel = self.transform(t, rel)
        return rel

    def transform(self, t, rel):
        k = t["t"]
        if k == "from":
            return self.source(t["src"], t.get("alias"))
        if rel is None:
            raise ModelError("pipeline does not start with from")
        # every column reference must resolve whether or not a row reaches it
        if k in ("select", "derive", "aggregate"):
            for _, e in t["items"]:
                check_refs(e, rel.cols)
        elif k == "filter":
            check_refs(t["cond"], rel.cols)
        elif k == "sort":
            for _, e in t["keys"]:
                check_refs(e, rel.cols)
        elif k == "exclude":
            for e in t["cols"]:
                check_refs(e, rel.cols)
        return getattr(self, "t_" + k)(t, rel)

    # -- row-wise
    def _win_eval(self, items, rel, part_keys=None, frame=None, inner_sort=None):
        """Evaluate items that may contain window functions; returns list of value lists aligned with rel.rows."""
        need = any(has_kind(e, ("win", "agg")) for _, e in items)
        if not need:
            return [[ev(e, Env(rel.cols, r)) for _, e in items] for r in rel.rows]
        if rel.okeys is None and getattr(rel, "pokeys", None) is not None and any(has_kind(e, ("win",)) for _, e in items):
            # the order of the left input survives a right/full join only partially (padded rows have no
            # position), so what an order-dependent window function sees there is not determined
            raise Unspecified("window function over the partial order left by a right/full join")
        # partitioning: whole relation (ordered by rel.okeys) unless inside group
        n = len(rel.rows)
        idxs = list(range(n))
        keys = rel.okeys
        rows = rel.rows
        win_rows = rows
        out = [None] * n
        rk = None
        rdir = 1
        if frame is not None and frame[0] == "range":
            sk = rel.sort_exprs
            if sk is None or len(sk) != 1:
                raise Unspecified("range frame needs exactly one sort key")
            rdir = -1 if sk[0][0] else 1
            rk = []
            for r in rows:
                v = norm(ev(sk[0][1], Env(rel.cols, r)))
                if v is not None and not is_num(v):
                    raise Unspecified("range frame over text key")
                rk.append(v)
        for i in idxs:
            w = {"rows": win_rows, "idx": i, "keys": keys, "frame": frame, "rkeys": rk, "rdir": rdir}
            env = Env(rel.cols, rows[i], None, w)
            out[i] = [ev(e, env) for _, e in items]
        return out

    def t_select(self, t, rel):
        items = t["items"]
        vals = self._win_eval(items, rel, frame=t.get("_frame"))
        cols = dedup_names(named_items(items, rel.cols))
        r = Rel(cols, [tuple(v) for v in vals], rel.okeys)
        r.pokeys = rel.pokeys
        _carry(rel, r)
        return r

    def t_exclude(self, t, rel):
        """select !{..}: every column of the frame, in order, except the named ones."""
        drop = {lookup(rel.cols, e[1], e[2]) for e in t["cols"]}
        keep = [i for i in range(len(rel.cols)) if i not in drop]
        r = Rel([rel.cols[i] for i in keep], [tuple(row[i] for i in keep) for row in rel.rows], rel.okeys)
        r.pokeys = rel.pokeys
        _carry(rel, r)
        return _carry_cols(rel, r)

    def t_derive(self, t, rel):
        items = t["items"]
        vals = self._win_eval(items, rel, frame=t.get("_frame"))
        new = named_items(items, rel.cols)
        cols = add_named(list(rel.cols), new)
        r = Rel(cols, [tuple(row) + tuple(v) for row, v in zip(rel.rows, vals)], rel.okeys)
        r.pokeys = rel.pokeys
        _carry(rel, r)
        return _carry_cols(rel, r)

    def t_filter(self, t, rel):
        vals = self._win_eval([[None, t["cond"]]], rel, frame=t.get("_frame"))
        keep = [i for i, v in enumerate(vals) if truth(v[0]) is True]
        r = Rel(rel.cols, [rel.rows[i] for i in keep], None if rel.okeys is None else [rel.okeys[i] for i in keep])
        if rel.pokeys is not None:
            r.pokeys = [rel.pokeys[i] for i in keep]
        _carry(rel, r)
        return _carry_cols(rel, r)

    def t_sort(self, t, rel):
        if any(has_kind(e, ("win", "agg")) for _, e in t["keys"]):
            # windowed sort key: evaluate into a temp column first
            vals = self._win_eval([[None, e] for _, e in t["keys"]], rel, frame=t.get("_frame"))
            tmp_cols = list(rel.cols) + [("__sort", "k%d" % i) for i in range(len(t["keys"]))]
            tmp_rows = [tuple(r) + tuple(v) for r, v in zip(rel.rows, vals)]
            keys = [(d, ["col", "__sort", "k%d" % i]) for i, (d, _) in enumerate(t["keys"])]
            rows, classes = order_classes(tmp_rows, tmp_cols, keys)
            rows = [r[:len(rel.cols)] for r in rows]
        else:
            rows, classes = order_classes(rel.rows, rel.cols, t["keys"])
        r = Rel(rel.cols, rows, classes)
        r.sort_exprs = [(d, e) for d, e in t["keys"]]
        return _carry_cols(rel, r)

    def t_take(self, t, rel):
        lo, hi = t.get("lo"), t.get("hi")
        n = len(rel.rows)
        a = 1 if lo is None else lo
        b = n if hi is None else hi
        if a < 1:
            raise Unspecified("take with non-positive start")
        a0, b0 = a - 1, min(b, n)       # python slice [a0:b0]
        if b0 < a0:
            b0 = a0
        if a0 >= n:
            r = Rel(rel.cols, [], None if rel.okeys is None else [])
            _carry(rel, r)
            return _carry_cols(rel, r)
        covers_all = a0 == 0 and b0 >= n
        if not covers_all and b0 > a0:
            if rel.okeys is None:
                if len(bag(rel.rows)) <= 1:
                    # all rows identical (e.g. every column is a group key): any choice gives the same relation
                    r = Rel(rel.cols, rel.rows[a0:b0], None)
                    return _carry_cols(rel, r)
                raise Unspecified("take on unordered relation")
            ks = rel.okeys
            if a0 > 0 and ks[a0 - 1] == ks[a0]:
                raise Unspecified("take boundary splits a tie")
            if b0 < n and ks[b0 - 1] == ks[b0]:
                raise Unspecified("take boundary splits a tie")
        elif not covers_all and rel.okeys is None and b0 == a0:
            pass  # empty result regardless of order
        r = Rel(rel.cols, rel.rows[a0:b0], None if rel.okeys is None else rel.okeys[a0:b0])
        _carry(rel, r)
        return _carry_cols(rel, r)

    def t_join(self, t, rel):
        right = self.source(t["src"], t.get("alias"))
        side = t.get("side", "inner")
        cols = JoinCols(list(rel.cols) + list(right.cols))
        cols.nleft = len(rel.cols)
        check_refs(t["cond"], cols)
        rows, okeys = [], []
        matched_r = set()
        for i, lr in enumerate(rel.rows):
            hit = False
            for j, rr in enumerate(right.rows):
                row = tuple(lr) + tuple(rr)
                if truth(ev(t["cond"], Env(cols, row))) is True:
                    rows.append(row)
                    okeys.append(rel.okeys[i] if rel.okeys is not None else None)
                    matched_r.add(j)
                    hit = True
            if not hit and side in ("left", "full"):
                rows.append(tuple(lr) + (None,) * len(right.cols))
                okeys.append(rel.okeys[i] if rel.okeys is not None else None)
        extra = False
        if side in ("right", "full"):
            for j, rr in enumerate(right.rows):
                if j not in matched_r:
                    rows.append((None,) * len(rel.cols) + tuple(rr))
                    okeys.append(None)
                    extra = True
        ordered = rel.okeys is not None and side in ("inner", "left")
        r = Rel(list(cols), rows, okeys if ordered else None)
        if ordered:
            _carry(rel, r)
        elif rel.okeys is not None:
            r.pokeys = okeys
        r.colorder_unspec = rel.colorder_unspec or right.colorder_unspec
        return r

    def t_append(self, t, rel):
        other = self.source(t["src"], None)
        if len(other.cols) != len(rel.cols):
            raise ModelError("append arity")
        # a column that the top relation leaves unnamed takes the bottom relation's name for that position
        names = [n if n is not None else bn for (_, n), (_, bn) in zip(rel.cols, other.cols)]
        return Rel(dedup_names([(None, n) for n in names]), list(rel.rows) + list(other.rows), None)

    def t_aggregate(self, t, rel):
        items = t["items"]
        env = Env(rel.cols, None, rel.rows)
        vals = tuple(ev(e, env) for _, e in items)
        cols = dedup_names([(None, n) for n, _ in items])
        return Rel(cols, [vals], None)

    def t_group(self, t, rel):
        """group keys (pipeline): the pipeline runs on each partition with the key
        columns removed from `this`; the result frame is keys ++ pipeline output."""
        keys = t["keys"]            # list of col exprs
        kidx = [lookup(rel.cols, e[1], e[2]) for e in keys]
        inner = t["pipe"]
        if t.get("_frame") is not None:
            # `window <frame> (group k (...))`: the frame of the enclosing window block applies to the window
            # functions of the group's pipeline (a `window` inside sets its own)
            inner = [dict(x, _frame=t["_frame"]) for x in inner]
        if not keys:
            # group {} behaves as no grouping and keeps the order (#5100)
            return self.pipeline(inner, Rel(rel.cols, list(rel.rows), rel.okeys, rel.sort_exprs))
        rest = [j for j in range(len(rel.cols)) if j not in kidx]
        in_cols = [rel.cols[j] for j in rest]
        kcols = [rel.cols[j] for j in kidx]
        parts, order = {}, []
        for r in rel.rows:
            kv = tuple(sort_key(r[j]) for j in kidx)
            if kv not in parts:
                parts[kv] = []
                order.append(kv)
            parts[kv].append(r)
        out_rows = []
        shape = self.pipeline(inner, Rel(in_cols, [], None))          # frame of the inner pipeline
        out_cols = add_named(kcols, shape.cols) if True else None
        for kv in order:
            prows = parts[kv]
            krow = tuple(prows[0][j] for j in kidx)
            sub = self.pipeline(inner, Rel(in_cols, [tuple(r[j] for j in rest) for r in prows], None))  # order resets inside group
            out_rows.extend(krow + tuple(r) for r in sub.rows)
        res = Rel(out_cols, out_rows, None)
        # the documentation fixes the frame of `group (aggregate ...)` (keys, then aggregates) but not the
        # column order of a group whose pipeline keeps the rows
        res.colorder_unspec = not any(x["t"] == "aggregate" for x in inner)
        return res

    def t_window(self, t, rel):
        """window <frame> (pipeline of derive/select/filter) — applies the frame to functions inside."""
        frame = t["frame"]
        r = rel
        for x in t["pipe"]:
            x = dict(x)
            x["_frame"] = frame
            r = self.transform(x, r)
        return r


def _carry(src, dst):
    if dst.okeys is not None:
        dst.sort_exprs = src.sort_exprs


def _carry_cols(src, dst):
    dst.colorder_unspec = src.colorder_unspec
    return dst


# ------------------------------------------------------------------ comparison

def val_eq(a, b, tol=1e-9):
    a, b = norm(a), norm(b)
    if a is None or b is None:
        return a is None and b is None
    if isinstance(a, str) or isinstance(b, str):
        return isinstance(a, str) and isinstance(b, str) and a == b
    if isinstance(a, dict) or isinstance(b, dict):
        return a == b
    if a == b:
        return True
    return abs(a - b) <= tol * max(1.0, abs(a), abs(b))


def canon_row(r):
    out = []
    for v in r:
        v = norm(v)
        if isinstance(v, float):
            if v == int(v) and abs(v) < 2 ** 53:
                v = int(v)
            else:
                v = float("%.9g" % v)
        if isinstance(v, dict):
            v = repr(v)
        out.append(v)
    return tuple(out)


def bag(rows):
    d = {}
    for r in rows:
        k = canon_row(r)
        d[k] = d.get(k, 0) + 1
    return d


def _vclass(v):
    v = norm(v)
    if v is None:
        return "NULL"
    if isinstance(v, str):
        return "text"
    if v == 0:
        return "0"
    return "num"


def _value_diff(mrows, arows):
    """Classify a bag difference column-wise: if every differing column differs by values of one
    class turning into values of one other class (e.g. 0 -> NULL), name that class pair."""
    if not mrows or len(mrows) != len(arows):
        return None
    ncol = len(mrows[0])
    if any(len(r) != ncol for r in arows) or any(len(r) != ncol for r in mrows):
        return None
    import collections
    pairs = set()
    for j in range(ncol):
        mb = collections.Counter(canon_row((r[j],))[0] for r in mrows)
        ab = collections.Counter(canon_row((r[j],))[0] for r in arows)
        only_m = mb - ab
        only_a = ab - mb
        if not only_m and not only_a:
            continue
        cm = {_vclass(v) for v in only_m}
        ca = {_vclass(v) for v in only_a}
        if len(cm) != 1 or len(ca) != 1:
            return None
        pairs.add((cm.pop(), ca.pop()))
    if len(pairs) == 1:
        m, a = pairs.pop()
        return "value_diff:%s->%s" % (m, a)
    return None


def compare(model, actual_rows):
    """Returns None if equal, else (symptom, detail)."""
    if len(model.rows) != len(actual_rows):
        return ("row_count_diff", "model %d rows, executed %d rows" % (len(model.rows), len(actual_rows)))
    if bag(model.rows) != bag(actual_rows):
        vd = _value_diff(model.rows, actual_rows)
        if vd:
            return (vd, "model %r executed %r" % (sorted(bag(model.rows).items(), key=repr)[:6],
                                                   sorted(bag(actual_rows).items(), key=repr)[:6]))
        return ("row_multiset_diff", "model %r executed %r" % (sorted(bag(model.rows).items(), key=repr)[:6],
                                                                sorted(bag(actual_rows).items(), key=repr)[:6]))
    if model.okeys is not None:
        pos = 0
        n = len(model.rows)
        while pos < n:
            end = pos
            while end < n and model.okeys[end] == model.okeys[pos]:
                end += 1
            if bag(model.rows[pos:end]) != bag(actual_rows[pos:end]):
                return ("order_diff", "rows %d..%d: model %r executed %r" % (
                    pos, end, [canon_row(r) for r in model.rows[pos:end]][:4], [canon_row(r) for r in actual_rows[pos:end]][:4]))
            pos = end
    elif getattr(model, "pokeys", None) is not None:
        # left order retained through a right/full join: the executed rows with the padded
        # rows taken out must be a concatenation of the model's tie groups
        extras = bag([r for r, k in zip(model.rows, model.pokeys) if k is None])
        kept = [(r, k) for r, k in zip(model.rows, model.pokeys) if k is not None]
        if any(canon in extras for canon in bag([r for r, _ in kept])):
            return None                     # a padded row equals a positioned row: cannot tell them apart
        left = dict(extras)
        seq = []
        for r in actual_rows:
            c = canon_row(r)
            if left.get(c, 0) > 0:
                left[c] -= 1
            else:
                seq.append(r)
        pos, n = 0, len(kept)
        while pos < n:
            end = pos
            while end < n and kept[end][1] == kept[pos][1]:
                end += 1
            if bag([r for r, _ in kept[pos:end]]) != bag(seq[pos:end]):
                return ("order_diff", "rows from the left input of a right/full join, positions %d..%d: model %r executed %r" % (
                    pos, end, [canon_row(r) for r, _ in kept[pos:end]][:4], [canon_row(r) for r in seq[pos:end]][:4]))
            pos = end
    return None
