"""Core of the runtime-monitoring framework: worker client, shard runner,
verdict/evidence/known-finding plumbing.  Python stdlib only."""
import json, os, sys, time, subprocess, select, hashlib, re, random, signal, traceback
import multiprocessing as mp

ROOT = os.path.dirname(os.path.dirname(os.path.abspath(__file__)))
HARNESS = os.path.join(ROOT, "harness")
WORKER = os.path.join(HARNESS, "target", "release", "pv-worker")
EVIDENCE = os.path.join(ROOT, "evidence")
REPLAY = os.path.join(ROOT, "replay")
FINDINGS_FILE = os.path.join(ROOT, "known_findings.txt")
REPO = "/repo"
NCPU = int(os.environ.get("PV_JOBS", "16"))

DIALECTS = ["ansi", "bigquery", "clickhouse", "duckdb", "generic", "glaredb", "mssql",
            "mysql", "postgres", "sqlite", "snowflake", "redshift"]


class Inconclusive(Exception):
    pass


def build_worker(verbose=True):
    """Rebuild the worker from /repo's current working tree (cargo fingerprints
    the path dependency).  Failure to build is inconclusive, never a violation."""
    env = dict(os.environ, CARGO_NET_OFFLINE="true")
    t0 = time.time()
    lock = None
    if os.environ.get("PV_LOCK_REPO"):
        # development aid (background runs next to tools/seedtest.py, which patches /repo temporarily):
        # build only while no seeded change is applied.  Not used by the registered commands.
        import fcntl
        lock = open("/tmp/pv_repo.lock", "w")
        fcntl.flock(lock, fcntl.LOCK_EX)
    try:
        p = subprocess.run(["cargo", "build", "--release", "--offline", "-q"], cwd=HARNESS, env=env,
                           stdout=subprocess.PIPE, stderr=subprocess.STDOUT, text=True)
    finally:
        if lock:
            lock.close()
    if p.returncode != 0:
        sys.stderr.write(p.stdout[-4000:])
        raise Inconclusive("worker build failed")
    if verbose:
        sys.stderr.write("[build] worker up to date (%.1fs)\n" % (time.time() - t0))


class Worker:
    """One pv-worker subprocess; one request at a time so an abort is
    attributable to exactly one input."""

    def __init__(self, env=None, binary=None):
        self.env = env
        self.binary = binary or WORKER
        self.p = None
        self.buf = b""
        self.dbs = {}
        self.restarts = 0
        self.start()

    def start(self):
        env = dict(os.environ)
        env.pop("PRQL_VERSION_OVERRIDE", None)
        if self.env:
            env.update(self.env)
        self.p = subprocess.Popen([self.binary], stdin=subprocess.PIPE, stdout=subprocess.PIPE,
                                  stderr=subprocess.PIPE, env=env)
        self.buf = b""
        os.set_blocking(self.p.stderr.fileno(), False)
        for name, stmts in self.dbs.items():
            self._call({"op": "db_open", "name": name, "stmts": stmts}, 30)

    def close(self):
        if self.p:
            try:
                self.p.stdin.close()
                self.p.wait(timeout=2)
            except Exception:
                self.p.kill()
            self.p = None

    def db_open(self, name, stmts):
        self.dbs[name] = stmts
        r = self._call({"op": "db_open", "name": name, "stmts": stmts}, 30)
        if not r.get("ok"):
            raise Inconclusive("db_open failed: %r" % (r,))

    def db_close(self, name):
        self.dbs.pop(name, None)
        self._call({"op": "db_close", "name": name}, 10)

    def db_close_all(self):
        self.dbs.clear()
        self._call({"op": "db_close_all"}, 10)

    def call(self, req, timeout=20.0):
        return self._call(req, timeout)

    def _stderr_tail(self):
        try:
            data = self.p.stderr.read() or b""
        except Exception:
            data = b""
        return data.decode("utf-8", "replace")[-600:]

    def _call(self, req, timeout):
        if self.p is None or self.p.poll() is not None:
            self.start()
        line = (json.dumps(req) + "\n").encode()
        try:
            self.p.stdin.write(line)
            self.p.stdin.flush()
        except (BrokenPipeError, OSError):
            return self._died()
        deadline = time.time() + timeout
        fd = self.p.stdout.fileno()
        while b"\n" not in self.buf:
            left = deadline - time.time()
            if left <= 0:
                # watchdog: inconclusive for time; kill and restart (the CPU time the process has used is
                # reported: a busy loop shows as CPU time close to the wall time, a starved process does not)
                cpu = None
                try:
                    f = open("/proc/%d/stat" % self.p.pid).read().rsplit(")", 1)[1].split()
                    cpu = (int(f[11]) + int(f[12])) / float(os.sysconf("SC_CLK_TCK"))
                except Exception:
                    pass
                self.p.kill()
                self.p.wait()
                self.restarts += 1
                self.start()
                return {"watchdog": True, "cpu_s": cpu}
            r, _, _ = select.select([fd], [], [], min(left, 1.0))
            if r:
                chunk = os.read(fd, 1 << 16)
                if not chunk:
                    return self._died()
                self.buf += chunk
        i = self.buf.index(b"\n")
        out, self.buf = self.buf[:i], self.buf[i + 1:]
        try:
            return json.loads(out)
        except Exception as e:
            return {"bad_response": out[:200].decode("utf-8", "replace"), "error": str(e)}

    def _died(self):
        try:
            rc = self.p.wait(timeout=5)
        except Exception:
            self.p.kill()
            rc = self.p.wait()
        tail = self._stderr_tail()
        kind = "abort"
        if "stack overflow" in tail or "has overflowed its stack" in tail:
            kind = "stack-overflow"
        elif "memory allocation" in tail:
            kind = "alloc-failure"
        self.restarts += 1
        self.start()
        return {"abort": {"returncode": rc, "kind": kind, "stderr": tail}}


# ---------------------------------------------------------------- shards

def shard_rng(seed, prop, shard):
    h = hashlib.sha256(("%d/%s/%d" % (seed, prop, shard)).encode()).digest()
    return random.Random(int.from_bytes(h[:8], "big"))


def _shard_entry(args):
    fn, kw = args
    try:
        return fn(**kw)
    except Inconclusive as e:
        return {"__inconclusive__": str(e)}
    except Exception:
        return {"__inconclusive__": "harness error: " + traceback.format_exc()[-1500:]}


def run_shards(fn, shard_kwargs, jobs=None):
    """Run fn(**kw) for each kw in parallel processes; returns list of results."""
    jobs = jobs or NCPU
    ctx = mp.get_context("fork")
    with ctx.Pool(min(jobs, max(1, len(shard_kwargs)))) as pool:
        res = pool.map(_shard_entry, [(fn, kw) for kw in shard_kwargs], chunksize=1)
    for r in res:
        if isinstance(r, dict) and "__inconclusive__" in r:
            raise Inconclusive(r["__inconclusive__"])
    return res


# ---------------------------------------------------------------- findings

class Finding:
    def __init__(self, prop, fid, symptom, shape, witness, text):
        self.prop, self.id, self.symptom, self.shape, self.witness, self.text = prop, fid, symptom, shape, witness, text

    def matches(self, v):
        if v["property"] != self.prop:
            return False
        if not re.fullmatch(self.symptom, v["symptom"], re.S):
            return False
        return re.fullmatch(self.shape, v.get("shape", ""), re.S) is not None


def load_findings(prop=None):
    out = []
    if not os.path.exists(FINDINGS_FILE):
        return out
    for line in open(FINDINGS_FILE, encoding="utf-8"):
        line = line.rstrip("\n")
        if not line.startswith("KNOWN-FINDING:"):
            continue  # comments and `fixed:` entries suppress nothing
        head, _, text = line.partition(" :: ")
        kv = {}
        for m in re.finditer(r"(\w+)=(\S+)", head[len("KNOWN-FINDING:"):]):
            kv[m.group(1)] = m.group(2)
        f = Finding(kv.get("property"), kv.get("id"), _unq(kv.get("symptom", ".*")),
                    _unq(kv.get("shape", ".*")), kv.get("witness"), text)
        if prop is None or f.prop == prop:
            out.append(f)
    return out


def load_fixed(prop):
    """`fixed:` entries: repaired defects.  They suppress nothing; their witnesses are re-executed as regressions."""
    out = []
    if not os.path.exists(FINDINGS_FILE):
        return out
    for line in open(FINDINGS_FILE, encoding="utf-8"):
        if not line.startswith("fixed:"):
            continue
        kv = {}
        for m in re.finditer(r"(\w+)=(\S+)", line):
            kv.setdefault(m.group(1), m.group(2))
        if kv.get("property") == prop and kv.get("witness"):
            out.append(kv["witness"])
    return out


def _unq(s):
    # regexes in the file are percent-encoded for spaces only
    return s.replace("%20", " ")


# ---------------------------------------------------------------- run / verdict

class Run:
    """Collects what one check run observed and produces verdict + evidence."""

    def __init__(self, prop, tier, seed, level="exploration"):
        self.prop, self.tier, self.seed, self.level = prop, tier, seed, level
        self.t0 = time.time()
        self.violations = []      # dicts: property, symptom, shape, witness, detail
        self.coverage = {}
        self.assumptions = []
        self.inconclusive = None
        self.findings = load_findings(prop)
        self.known_hits = {}

    def borrow_findings(self, other_prop):
        """This check also judges symptoms that another property's check owns (e.g. C03 judges which
        rows a positional take returns): the other property's listed findings apply to them unchanged
        (same symptom class, same shape).  Their witnesses are replayed by their own check, not here."""
        for f in load_findings(other_prop):
            self.findings.append(Finding(self.prop, f.id, f.symptom, f.shape, None, "(listed under %s) %s" % (other_prop, f.text)))

    def add_violation(self, symptom, shape, witness, detail=""):
        self.violations.append({"property": self.prop, "symptom": symptom, "shape": shape,
                                "witness": witness, "detail": detail})

    def extend(self, viols):
        for v in viols:
            v.setdefault("property", self.prop)
            self.violations.append(v)

    def finish(self, replay_fn=None):
        """Print verdict lines, write evidence, return exit code.
        replay_fn(witness) -> list of violations (re-executes a committed witness)."""
        new = []
        for v in self.violations:
            hit = None
            for f in self.findings:
                if f.matches(v):
                    hit = f
                    break
            if hit:
                self.known_hits[hit.id] = self.known_hits.get(hit.id, 0) + 1
            else:
                new.append(v)
        # committed witnesses of open findings: still failing => KNOWN-FINDING line
        still = {}
        for f in self.findings:
            fails = self.known_hits.get(f.id, 0) > 0
            if not fails and replay_fn and f.witness:
                try:
                    w = json.load(open(os.path.join(ROOT, f.witness), encoding="utf-8"))
                    if isinstance(w, dict) and "case" in w and "symptom" in w:
                        w = w["case"]       # a replay file: the case is wrapped
                    vs = replay_fn(w)
                    fails = any(f.matches(dict(v, property=self.prop)) for v in vs)
                except Exception as e:
                    sys.stderr.write("[findings] witness %s could not be replayed: %s\n" % (f.witness, e))
            still[f.id] = fails
            if fails:
                print("KNOWN-FINDING: property=%s id=%s %s" % (self.prop, f.id, f.text))
        # regression witnesses of repaired defects: reported like any other violation if they return
        if replay_fn:
            for wpath in load_fixed(self.prop):
                try:
                    wcase = json.load(open(os.path.join(ROOT, wpath), encoding="utf-8"))
                    if isinstance(wcase, dict) and "case" in wcase and "symptom" in wcase:
                        wcase = wcase["case"]
                    for v in replay_fn(wcase):
                        v = dict(v, property=self.prop)
                        v["detail"] = "REGRESSION of a repaired defect (%s): %s" % (wpath, v.get("detail", ""))
                        if not any(f.matches(v) for f in self.findings):
                            new.append(v)
                    self.coverage["regression_witnesses_replayed"] = self.coverage.get("regression_witnesses_replayed", 0) + 1
                except Exception as e:
                    sys.stderr.write("[findings] regression witness %s could not be replayed: %s\n" % (wpath, e))
        code = 0
        seen = set()
        os.makedirs(REPLAY, exist_ok=True)
        n_new_distinct = 0
        for v in new:
            key = (v["symptom"], v.get("shape", ""))
            if key in seen:
                continue
            seen.add(key)
            n_new_distinct += 1
            if n_new_distinct > 12:
                continue
            h = hashlib.sha1(json.dumps(key).encode()).hexdigest()[:12]
            path = os.path.join(REPLAY, "%s-%s.json" % (self.prop, h))
            with open(path, "w", encoding="utf-8") as fh:
                json.dump({"property": self.prop, "symptom": v["symptom"], "shape": v.get("shape", ""),
                           "detail": v.get("detail", ""), "case": v["witness"]}, fh, indent=1, ensure_ascii=False)
            print("VIOLATION property=%s replay=%s" % (self.prop, path))
            sys.stderr.write("  symptom=%s shape=%s\n  detail=%s\n" % (v["symptom"], v.get("shape", "")[:200], str(v.get("detail", ""))[:300]))
            code = 1
        cov = self.coverage
        cov.setdefault("known_finding_hits", self.known_hits)
        cov["new_violation_classes"] = n_new_distinct
        if code == 0 and self.inconclusive is None:
            # a run that observed nothing is inconclusive, not green
            if cov.get("evaluations", 0) < 1 or cov.get("distinct_nontrivial", 0) < 2:
                self.inconclusive = "observed too little (evaluations=%s distinct_nontrivial=%s)" % (
                    cov.get("evaluations"), cov.get("distinct_nontrivial"))
        ev = {"property_id": self.prop, "tier": self.tier, "seed": self.seed, "level": self.level,
              "coverage": cov, "assumptions": self.assumptions, "wall_s": round(time.time() - self.t0, 2),
              "violations": len(new), "verdict": "violated" if code else ("inconclusive" if self.inconclusive else "held")}
        if self.inconclusive:
            ev["inconclusive_reason"] = self.inconclusive
        os.makedirs(EVIDENCE, exist_ok=True)
        with open(os.path.join(EVIDENCE, self.prop + ".json"), "w", encoding="utf-8") as fh:
            json.dump(ev, fh, indent=1, ensure_ascii=False, default=str)
        if code == 0 and self.inconclusive:
            print("INCONCLUSIVE property=%s reason=%s" % (self.prop, self.inconclusive))
            return 2
        if code == 0:
            print("HELD property=%s tier=%s seed=%d evaluations=%s distinct_nontrivial=%s wall=%.0fs" % (
                self.prop, self.tier, self.seed, cov.get("evaluations"), cov.get("distinct_nontrivial"),
                time.time() - self.t0))
        return code


def write_inconclusive(prop, tier, seed, reason):
    os.makedirs(EVIDENCE, exist_ok=True)
    ev = {"property_id": prop, "tier": tier, "seed": seed, "level": "exploration",
          "coverage": {"evaluations": 0, "distinct_nontrivial": 0, "rule": "run did not complete", "samples": []},
          "assumptions": [], "wall_s": 0.0, "violations": 0, "verdict": "inconclusive",
          "inconclusive_reason": reason}
    with open(os.path.join(EVIDENCE, prop + ".json"), "w", encoding="utf-8") as fh:
        json.dump(ev, fh, indent=1)
    print("INCONCLUSIVE property=%s reason=%s" % (prop, reason.replace("\n", " ")[:500]))


# ---------------------------------------------------------------- helpers

def merge_counts(dst, src):
    for k, v in src.items():
        if isinstance(v, dict):
            merge_counts(dst.setdefault(k, {}), v)
        elif isinstance(v, (int, float)):
            dst[k] = dst.get(k, 0) + v
        elif isinstance(v, list):
            dst.setdefault(k, [])
            dst[k].extend(v)
        elif isinstance(v, set):
            dst.setdefault(k, set())
            dst[k] |= v
        else:
            dst[k] = v
    return dst


def ddmin(items, fails, max_tests=400):
    """Classic ddmin on a list; `fails(list)` -> True if the symptom persists."""
    n = 2
    tests = 0
    items = list(items)
    while len(items) >= 2 and tests < max_tests:
        chunk = max(1, len(items) // n)
        reduced = False
        for i in range(0, len(items), chunk):
            cand = items[:i] + items[i + chunk:]
            tests += 1
            if cand and fails(cand):
                items = cand
                n = max(n - 1, 2)
                reduced = True
                break
            if tests >= max_tests:
                break
        if not reduced:
            if chunk == 1:
                break
            n = min(len(items), n * 2)
    return items


def panic_sig(p):
    """Signature of a caught panic that survives line shifts: file + enclosing
    source line text."""
    loc = p.get("loc", "?")
    m = re.match(r"(.*):(\d+)$", loc)
    text = ""
    if m:
        path, line = m.group(1), int(m.group(2))
        cands = [path, os.path.join(REPO, path)]
        for c in cands:
            if os.path.exists(c):
                try:
                    lines = open(c, encoding="utf-8", errors="replace").read().split("\n")
                    text = lines[line - 1].strip()
                    k = line - 2
                    while len(text) < 28 and k >= 0 and k >= line - 5:
                        # a bare `.unwrap()` line says nothing: add the preceding lines of the expression
                        text = lines[k].strip() + " " + text
                        k -= 1
                except Exception:
                    pass
                break
        path = re.sub(r"^/repo/", "", path)
        path = re.sub(r"^.*/registry/src/[^/]+/", "dep:", path)
        return "panic@%s::%s" % (path, text[:100])
    return "panic@" + loc
