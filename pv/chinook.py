"""Upstream ground truth: the integration queries of /repo over the chinook CSV data, with the result
snapshots recorded upstream (tests/integration/snapshots/integration__queries__results__*.snap).
An oracle for C01 that does not depend on the reference model: the SQL the compiler emits for sql.sqlite,
executed on the pinned SQLite over the same data, must render to the recorded text.
The data files are read from /repo (they are test inputs, not code under test)."""
import csv, glob, os, re

REPO_IT = "/repo/prqlc/prqlc/tests/integration"


def load_statements():
    """DDL + INSERTs the way upstream's SQLite runner loads them (every value as text, '' -> NULL;
    the column affinities of schema.sql convert)."""
    stmts = []
    schema = open(os.path.join(REPO_IT, "data/chinook/schema.sql"), encoding="utf-8").read()
    for s in schema.split(";"):
        s = s.strip()
        if s:
            stmts.append(s + ";")
    for path in sorted(glob.glob(os.path.join(REPO_IT, "data/chinook/*.csv"))):
        table = os.path.splitext(os.path.basename(path))[0]
        with open(path, newline="", encoding="utf-8") as f:
            rd = csv.reader(f)
            headers = next(rd)
            chunk = []
            for r in rd:
                vals = ", ".join("NULL" if v == "" else "'" + v.replace("'", "''") + "'" for v in r)
                chunk.append("INSERT INTO %s (%s) VALUES (%s);" % (table, ", ".join(headers), vals))
                if len(chunk) >= 400:
                    stmts.append("".join(chunk))
                    chunk = []
            if chunk:
                stmts.append("".join(chunk))
    return stmts


def cases():
    """-> list of (name, prql, expected text)"""
    out = []
    for q in sorted(glob.glob(os.path.join(REPO_IT, "queries/*.prql"))):
        name = os.path.splitext(os.path.basename(q))[0]
        prql = open(q, encoding="utf-8").read()
        if "sqlite:skip" in prql:
            continue
        snap = os.path.join(REPO_IT, "snapshots/integration__queries__results__%s.snap" % name)
        if not os.path.exists(snap):
            continue
        text = open(snap, encoding="utf-8").read()
        parts = text.split("\n---\n", 1)
        if len(parts) != 2:
            continue
        out.append((name, prql, parts[1].rstrip("\n")))
    return out


_TRIM = re.compile(r"^-?\d+\.\d*0+$")


def render_value(v):
    if v is None:
        return ""
    if isinstance(v, bool):
        return "1" if v else "0"
    if isinstance(v, float):
        s = repr(v)
        if "e" in s or "E" in s:
            s = "%.15f" % v
        if "." not in s:
            s += ".0"
        if _TRIM.match(s):
            s = s.rstrip("0").rstrip(".")
        return s
    return str(v)


def render(rows):
    return "\n".join(",".join(render_value(v) for v in r) for r in rows)


def same_text(a, b, tol=1e-9):
    """Equal as text, or line by line equal up to float formatting."""
    if a == b:
        return True
    la, lb = a.split("\n"), b.split("\n")
    if len(la) != len(lb):
        return False
    for x, y in zip(la, lb):
        if x == y:
            continue
        tx, ty = x.split(","), y.split(",")
        if len(tx) != len(ty):
            return False
        for p, q in zip(tx, ty):
            if p == q:
                continue
            try:
                fp, fq = float(p), float(q)
            except ValueError:
                return False
            if abs(fp - fq) > tol * max(1.0, abs(fp), abs(fq)):
                return False
    return True
