"""Shared machinery for the execution-based properties (C01, C03, C04, C05, C06, C09):
compile with the real compiler, execute on pinned SQLite, compare with the
reference model, classify symptoms, reduce witnesses, canonicalise shapes."""
import copy, json, re
from . import core
from .gen import grel
from .ref import model

GENERATED = re.compile(r"^(_expr_\d+|table_\d+)(:\d+)?$")


def classify_sqlite_error(msg, dialect):
    m = msg.lower()
    if "no such function" in m:
        return "engine_unsupported"
    if "no such column" in m or "no such table" in m or "ambiguous column" in m:
        return "scope"
    if "syntax error" in m or "incomplete input" in m or "unrecognized token" in m:
        return "syntax" if dialect == "sqlite" else "engine_unsupported"
    if "selects to the left and right" in m or "do not have the same number" in m:
        return "arity"
    if "too many rows" in m:
        return "engine_unsupported"
    if "on clause references tables to its right" in m and dialect != "sqlite":
        # a restriction of SQLite's RIGHT/FULL JOIN implementation, not of SQL: only sql.sqlite output must respect it
        return "engine_unsupported"
    return "other"


def second_engine_agrees(sql, db, m, rows_primary, cols_primary):
    """Execute the statement on the interpreter's own SQLite (a different version than the worker's pinned
    one) and compare with the model the same way.  True only if that engine returns the same columns and the
    model accepts its rows."""
    try:
        import sqlite3
        if sqlite3.sqlite_version == "3.49.1":
            return False            # not a second opinion
        con = sqlite3.connect(":memory:")
        try:
            for stmt in grel.db_stmts(db):
                con.executescript(stmt)
            cur = con.execute(sql)
            cols2 = [c[0] for c in cur.description]
            rows2 = [tuple(r) for r in cur.fetchall()]
        finally:
            con.close()
        if len(cols2) != len(cols_primary) or len(rows2) != len(rows_primary):
            return False
        width = len(m.cols)
        if rows2 and len(rows2[0]) != width:
            # the caller compared a projection of the primary rows (generated helper columns removed / prefix)
            if len(rows_primary) and len(rows_primary[0]) == width and len(cols2) >= width:
                rows2 = [r[:width] for r in rows2] if cols_primary[:width] == cols2[:width] else None
            else:
                rows2 = None
        if rows2 is None:
            return False
        return model.compare(m, rows2) is None
    except Exception:
        return False


def sql_shape(sql):
    """Observation of the emitted SQL's structure (which internal decisions this execution exercised)."""
    u = sql.upper()
    return {
        "ctes": len(re.findall(r"\bAS \(\s*(?:SELECT|WITH)", u)) if u.startswith("WITH") else 0,
        "subqueries": len(re.findall(r"\(\s*SELECT", u)),
        "distinct": int("SELECT DISTINCT" in u),
        "row_number": int("ROW_NUMBER()" in u),
        "union": int("UNION" in u), "except": int(" EXCEPT " in u), "intersect": int(" INTERSECT " in u),
        "having": int(" HAVING " in u), "where": int(" WHERE " in u), "group_by": int(" GROUP BY " in u),
        "limit": int(" LIMIT " in u), "offset": int(" OFFSET " in u), "order_by": int(" ORDER BY " in u),
        "over": int(" OVER (" in u), "join": int(" JOIN " in u),
    }


def outer_order_by(sql):
    """True if the outermost SELECT of the statement carries an ORDER BY (depth-0 scan)."""
    depth = 0
    i = 0
    u = sql.upper()
    last_order = -1
    n = len(u)
    in_str = None
    while i < n:
        c = u[i]
        if in_str:
            if c == in_str:
                if i + 1 < n and u[i + 1] == in_str:
                    i += 1
                else:
                    in_str = None
        elif c in "'\"`":
            in_str = c
        elif c == "(":
            depth += 1
        elif c == ")":
            depth -= 1
        elif depth == 0 and u.startswith("ORDER BY", i):
            last_order = i
        i += 1
    return last_order >= 0


def excluded_names(prog):
    """Names that some `select !{..}` of the program excludes."""
    out = set()

    def walk(pipe):
        for t in pipe:
            if t["t"] == "exclude":
                out.update(e[2] for e in t["cols"])
            if t["t"] in ("group", "window"):
                walk(t["pipe"])
            s_ = t.get("src")
            if s_ and s_["k"] == "pipe":
                walk(s_["pipe"])
    used = grel.let_refs(prog)
    for n, p in prog.get("lets", []):
        if used.get(n):
            walk(p)
    walk(prog["main"])
    return out


STATIC_DIALECTS = ("duckdb", "snowflake", "bigquery")


class Outcome:
    __slots__ = ("status", "symptoms", "sql", "cols", "rows", "model", "obs", "raw")

    def __init__(self):
        self.status = None          # ok | rejected | panic | abort | watchdog | engine_unsupported | unspecified | judged
        self.symptoms = []          # [(property, symptom, detail)]
        self.sql = None
        self.cols = None
        self.rows = None
        self.model = None
        self.obs = {}
        self.raw = None


def root_tags(w, sql, db):
    """Facts about an emitted statement that name a root cause (computed by the SQL scope monitor on the parsed
    statement): references by a name that the relation exposes twice; an aggregate call evaluated outside a grouping query."""
    try:
        pr = w.call({"op": "sqlparse", "dialect": "sqlite", "sql": sql, "ast": True})
        if pr.get("ok"):
            from .mon import sqlscope
            return sqlscope.bind(pr["ast"], {t: list(dd["cols"]) for t, dd in db.items()})
    except Exception:
        pass
    return {}


def run_case(w, prog, db, dbname, dialect, src=None, want_rq=True, user_names=None):
    """One execution: compile prog for dialect, run on db, compare with model."""
    o = Outcome()
    if src is None:
        try:
            src = grel.pp_program(prog)
        except ValueError as e:
            o.status = "gen_error"
            return o
    static = dialect in STATIC_DIALECTS
    req = {"op": "compile", "src": src, "target": "sql." + dialect}
    if not static:
        req["db"] = dbname
    if want_rq:
        req["rq"] = True
    r = w.call(req)
    o.raw = r
    if "watchdog" in r:
        o.status = "watchdog"
        return o
    if "abort" in r:
        o.status = "abort"
        o.symptoms.append(("C12", "abort:" + r["abort"].get("kind", "?") + "@compile", r["abort"].get("stderr", "")[-300:]))
        return o
    if "panic" in r:
        o.status = "panic"
        o.symptoms.append(("C12", core.panic_sig(r["panic"]), r["panic"].get("msg", "")[:300]))
        return o
    if "errors" in r:
        o.status = "rejected"
        errs = r["errors"] or []
        o.obs["reject_reason"] = (errs[0].get("reason", "?") if errs else "?")[:80]
        return o
    if "sql" not in r:
        o.status = "watchdog"
        return o
    o.sql = r["sql"]
    o.obs["shape"] = sql_shape(o.sql)
    if r.get("rqcheck", {}).get("violations"):
        for v in r["rqcheck"]["violations"]:
            o.symptoms.append(("C16", "rq:" + v.split(":")[0], v))
    ex = r.get("exec", {})
    if static:
        # dialects SQLite cannot execute (they have `* EXCLUDE (..)` / `* EXCEPT (..)`): the result columns are
        # computed from the parsed statement by the SQL scope monitor over the schema of the database; only the
        # frame (C05) is judged, and only when every relation of the statement has a fully known column list
        from .mon import sqlscope
        pr = w.call({"op": "sqlparse", "dialect": dialect, "sql": o.sql, "ast": True})
        if not pr.get("ok"):
            o.status = "static_unparsed"
            return o
        b = sqlscope.bind(pr["ast"], {t: list(dd["cols"]) for t, dd in db.items()})
        out = b.get("out")
        if b.get("monitor_error") or not out or out["open"] or any(p_["kind"] != "excluded_column_unknown" for p_ in b.get("problems", [])):
            o.status = "static_open"
            return o
        for p_ in b.get("problems", []):
            o.symptoms.append(("C07", "bind:" + p_["kind"], p_["detail"][:300]))
        ex = {"cols": [("(expr %d)" % i if n == "\x00unnamed" else n) for i, n in enumerate(out["names"])], "rows": []}
        o.obs["static_frame"] = True
    if "sqlite_error" in ex:
        cls = classify_sqlite_error(ex["sqlite_error"], dialect)
        if cls == "engine_unsupported":
            o.status = "engine_unsupported"
            return o
        o.status = "judged"
        pat = r"[\w.]*_expr_\d+|table_\d+\.\w+|\b[a-z]\d+\.\w+" + (r"|\b\w+$" if cls == "scope" else "")     # the trailing word is a name only in scope errors
        tag = ""
        if root_tags(w, o.sql, db).get("misplaced_aggregate"):
            tag = "+misplaced_aggregate"
            o.obs["misplaced_aggregate"] = True
        o.symptoms.append(("C07", "sql_error:" + cls + ":" + re.sub(pat, "X", ex["sqlite_error"].split(" in ")[0])[:60] + tag,
                           ex["sqlite_error"][:300]))
        return o
    o.cols, o.rows = ex["cols"], [tuple(x) for x in ex["rows"]]
    try:
        m = model.Interp(db).run(prog)
    except model.Unspecified as e:
        o.status = "unspecified"
        o.obs["unspecified"] = str(e)
        return o
    except model.ModelError as e:
        o.status = "model_error"
        o.obs["model_error"] = str(e)[:200]
        return o
    names = [n for _, n in m.cols if n]
    if len({n.lower() for n in names}) < len(set(names)) and (o.obs["shape"]["ctes"] or o.obs["shape"]["subqueries"]):
        # result names that differ only in letter case had to cross a sub-query boundary: SQLite folds the
        # case of column names (also of quoted ones), so the engine, not the compiler, decides what comes back
        o.status = "unspecified"
        o.obs["unspecified"] = "engine folds the case of column names across a sub-query"
        return o
    o.model = m
    o.status = "judged"
    model_flags = set(model.RUN_FLAGS)
    frame = r.get("rqcheck", {}).get("frame")
    has_wild = frame is not None and any(isinstance(c, dict) for c in frame)
    o.obs["frame_wildcard"] = has_wild
    exp = [n for _, n in m.cols]
    # SQLite renames duplicate result names of a sub-query `name:N`; that suffix is an engine artifact
    act = [re.sub(r":\d+$", "", c) if c not in (user_names or ()) else c for c in o.cols]
    rows = o.rows
    user = user_names or set()
    # ---- C05: columns
    gen_extra = [c for c in act if GENERATED.match(c) and c not in user and c not in exp]
    aligned = True
    prefix_rows = None
    if gen_extra and len(act) - len(gen_extra) == len(exp):
        o.symptoms.append(("C05", "extra_generated_column", "frame %r result %r" % (exp, act)))
        keep = [i for i, c in enumerate(act) if c not in gen_extra]
        act = [act[i] for i in keep]
        rows = [tuple(r[i] for i in keep) for r in rows]
        named_exp = [n for n in exp if n is not None]
        if has_wild and len(set(named_exp)) < len(named_exp):
            # with repeated names in a wildcard frame a generated name may stand for a frame column
            # (t1.id AS _expr_0) while a wildcard repeats another one: which result column is which
            # cannot be told by name and count, so the rows are not judged
            o.status = "unalignable"
            aligned = False
    elif len(act) != len(exp):
        sym = "column_count"
        if has_wild and len(act) > len(exp) and all(n is not None for n in exp):
            # finer class for wildcard frames: every frame column is there, in order, and what is extra is a
            # compiler-generated name or a repeated frame column (a carried sort key / helper): KF-C05-2's defect.
            # Anything else (a frame column missing or out of order) stays `column_count`
            it = iter(act)
            in_order = all(any(a == n for a in it) for n in exp)
            extras = list(act)
            for n in exp:
                if n in extras:
                    extras.remove(n)
            if in_order and all((GENERATED.match(x) and x not in user) or x in exp for x in extras):
                sym = "helper_columns_leak"
        # finer classes for programs with `select !{..}`: which columns are there that should not be, or the reverse
        excl = excluded_names(prog)
        if excl:
            extras = list(act)
            for n in exp:
                if n in extras:
                    extras.remove(n)
            contained = all(act.count(n) >= exp.count(n) for n in set(exp))
            if (len(act) > len(exp) and all(n is not None for n in exp) and contained and any(x in excl for x in extras)
                    and all(x in excl or (GENERATED.match(x) and x not in user) for x in extras)):
                sym = "excluded_columns_present"          # the exclusion had no effect on some column (SELECT * over an opaque table)
            elif len(act) < len(exp) and None in exp and sorted(n for n in exp if n is not None) == sorted(act):
                # exactly the unnamed columns of the frame are missing (the named ones may also come back
                # re-ordered, which is KF-C05-8's defect of the same construct)
                sym = "exclusion_drops_unnamed"
        o.symptoms.append(("C05", sym, "frame %r result %r" % (exp, act)))
        aligned = False
        if len(act) > len(exp) and exp and all(n is not None for n in exp) and act[:len(exp)] == exp and not m.colorder_unspec:
            # the frame's columns come first and helper columns trail (the listed wildcard defect KF-C05-2):
            # the rows can still be judged on the frame's columns
            prefix_rows = [tuple(r[:len(exp)]) for r in rows]
            o.obs["aligned_on_prefix"] = True
    if aligned:
        named = [n for n in exp if n is not None]
        missing = [n for n in set(named) if act.count(n) < named.count(n)]
        positional_ok = all(n is None or n == a for n, a in zip(exp, act))
        if m.colorder_unspec and positional_ok and (None in exp) and len(exp) > 1:
            # unnamed model columns cannot be matched when the column order itself is open
            positional_ok = False
        if missing:
            lost = [a for a in act if GENERATED.match(a) and a not in user]
            o.symptoms.append(("C05", "name_lost_to_generated" if lost else "name_missing",
                               "frame %r result %r" % (exp, act)))
            # positional comparison of values is still meaningful when only names differ, but not when the
            # column order itself is open, nor when a wildcard may have brought in a helper column in place
            # of the missing one (same count, different columns)
            if m.colorder_unspec or has_wild:
                o.status = "unalignable"
                aligned = False
        elif not positional_ok:
            if m.colorder_unspec or has_wild:
                if None not in exp and len(set(exp)) == len(exp) and len(set(act)) == len(act):
                    perm = [act.index(n) for n in exp]
                    rows = [tuple(r[i] for i in perm) for r in rows]
                    o.obs["aligned_by_name"] = True
                    if has_wild and not m.colorder_unspec:
                        o.symptoms.append(("C05", "column_order", "frame %r result %r" % (exp, act)))
                else:
                    o.status = "unalignable"
                    aligned = False
            else:
                o.symptoms.append(("C05", "column_order", "frame %r result %r" % (exp, act)))
                aligned = False
        # result vs the compiler's own final frame (RQ relation.columns), when it has no wildcard
        if frame is not None and not has_wild:
            if len(frame) != len(o.cols) - (len(gen_extra) if len(o.cols) - len(gen_extra) == len(exp) else 0):
                o.symptoms.append(("C05", "rq_frame_count", "rq frame %r result %r" % (frame, o.cols)))
            elif any(f is not None and f != a for f, a in zip(frame, act)):
                o.symptoms.append(("C05", "rq_frame_names", "rq frame %r result %r" % (frame, act)))
    named_exp_ = [n for n in exp if n is not None]
    if len(set(named_exp_)) < len(named_exp_) and not has_wild:
        # root-cause tag for fully known frames: the frame holds two columns of the SAME name (two joined relations
        # sharing a column name): the family of KF-C05-1.  Column-list symptoms of frames without a repeated name
        # are never attributed to it
        excl_classes = ("column_order", "excluded_columns_present", "exclusion_drops_unnamed") if excluded_names(prog) else ()
        o.symptoms = [(p_, (s_ + "+dup_names") if p_ == "C05" and "+" not in s_ and s_ not in excl_classes else s_, d_) for (p_, s_, d_) in o.symptoms]
    if static:
        # root-cause tag (EXCLUDE dialects): a column that the program excluded by name and that no later step
        # re-introduces is in the result - the lost-exclusion defect (KF-C05-10) is at work, whatever else differs
        excl = excluded_names(prog)
        if excl and any(x in excl and act.count(x) > exp.count(x) for x in set(act)):
            o.symptoms = [(p_, (s_ + "+excluded_present") if p_ == "C05" and "+" not in s_ and s_ != "excluded_columns_present" else s_, d_) for (p_, s_, d_) in o.symptoms]
    if frame == [] and len(o.cols) == 1 and not [n for n in exp if n is not None]:
        # a relation without (named) columns cannot be written in SQL: the compiler emits one placeholder column
        # (SELECT NULL).  Only when the MODEL's frame has no named column either: a defect that empties the compiler's
        # frame of a relation that should have columns stays a column_count violation
        o.symptoms = [(p_, "zero_column_frame" if p_ == "C05" and s_ in ("rq_frame_count", "column_count") else s_, d_) for (p_, s_, d_) in o.symptoms]
    # ---- C01 / C03: rows
    if not aligned and prefix_rows is not None:
        aligned, rows = True, prefix_rows
    if static:
        aligned = False          # nothing was executed
    if aligned:
        d = model.compare(m, rows)
        if d and second_engine_agrees(o.sql, db, m, rows, o.cols):
            # the pinned SQLite (3.49.1) and the model disagree, but another SQLite version executing the SAME
            # statement agrees with the model: the statement is right and the pinned engine is at fault (seen:
            # GROUP BY k ORDER BY k over a sub-query that is ordered DESC with a LIMIT comes back in the
            # sub-query's order on 3.49.1, correctly on 3.40.1).  Counted, not a violation of the compiler.
            o.obs["engine_disagreement"] = True
            d = None
        if d:
            prop = "C03" if d[0] == "order_diff" else "C01"
            sym = d[0]
            # root-cause tag: does the statement refer to a column by a name that the relation it is taken
            # from exposes twice (SELECT a.*, b.* in a sub-query, a carried sort key next to a same-named
            # column)?  Engines then take the first such column (or reject the statement): one defect family,
            # whatever the shape of the pipeline that produced it
            tags = root_tags(w, o.sql, db)
            if tags.get("ambiguous"):
                sym += "+ambiguous_ref"
                o.obs["ambiguous_ref"] = tags["ambiguous"][0]
            elif tags.get("misplaced_aggregate") and prop == "C01":
                # an aggregate function evaluated in another query than the one that groups its rows (a SELECT
                # without GROUP BY that mixes SUM(..) with plain columns): one defect family (KF-C01-1 / KF-C01-4),
                # whatever pipeline shape led to it
                sym += "+misplaced_aggregate"
                o.obs["misplaced_aggregate"] = True
            if "win_sum_all_null" in model_flags and "+" not in sym and prop == "C01":
                # the model evaluated a windowed sum over a frame without any non-NULL value (0 by the
                # documentation, NULL from SQL's SUM): whatever differs downstream has that root (KF-C04-2)
                sym += "+win_sum_all_null"
            o.symptoms.append((prop, sym, d[1]))
        elif m.okeys is not None and len(set(m.okeys)) > 1 and not outer_order_by(o.sql):
            o.symptoms.append(("C03", "order_not_enforced", "model result is ordered with %d distinct keys but outermost SELECT has no ORDER BY" % len(set(m.okeys))))
        elif m.okeys is None and m.pokeys is not None and len(set(k for k in m.pokeys if k is not None)) > 1 and not outer_order_by(o.sql):
            o.symptoms.append(("C03", "order_not_enforced", "rows from the ordered left input of a right/full join have %d distinct keys but outermost SELECT has no ORDER BY" % len(set(k for k in m.pokeys if k is not None))))
    o.obs["ordered"] = m.okeys is not None
    o.obs["partially_ordered"] = m.okeys is None and m.pokeys is not None
    o.obs["nrows"] = len(m.rows)
    return o


# ------------------------------------------------------------------ reduction

def _pipes(prog):
    """Yield (container_list, description) for every transform list in the program."""
    out = []

    def walk(pipe):
        out.append(pipe)
        for t in pipe:
            if t["t"] in ("group", "window"):
                walk(t["pipe"])
            if t["t"] in ("join", "append", "from") and t["src"]["k"] == "pipe":
                walk(t["src"]["pipe"])
    for _, p in prog.get("lets", []):
        walk(p)
    walk(prog["main"])
    return out


def _candidates(prog):
    """Smaller variants of prog (each a deep copy)."""
    # 1. drop a let
    for i in range(len(prog.get("lets", []))):
        c = copy.deepcopy(prog)
        del c["lets"][i]
        yield c
    # 2. drop a transform (not the leading from), or truncate
    n_p = len(_pipes(prog))
    for pi in range(n_p):
        plen = len(_pipes(prog)[pi])
        for ti in range(plen - 1, 0, -1):
            c = copy.deepcopy(prog)
            del _pipes(c)[pi][ti]
            yield c
    # 3. unwrap group/window: replace by its inner pipeline / drop window clause
    for pi in range(n_p):
        for ti, t in enumerate(_pipes(prog)[pi]):
            if t["t"] == "window":
                c = copy.deepcopy(prog)
                p = _pipes(c)[pi]
                p[ti:ti + 1] = p[ti]["pipe"]
                yield c
            if t["t"] in ("select", "derive", "aggregate") and len(t["items"]) > 1:
                for ii in range(len(t["items"])):
                    c = copy.deepcopy(prog)
                    del _pipes(c)[pi][ti]["items"][ii]
                    yield c
            if t["t"] == "exclude" and len(t["cols"]) > 1:
                for ii in range(len(t["cols"])):
                    c = copy.deepcopy(prog)
                    del _pipes(c)[pi][ti]["cols"][ii]
                    yield c
            if t["t"] == "sort" and len(t["keys"]) > 1:
                for ii in range(len(t["keys"])):
                    c = copy.deepcopy(prog)
                    del _pipes(c)[pi][ti]["keys"][ii]
                    yield c
            if t["t"] == "group" and len(t["keys"]) > 1:
                for ii in range(len(t["keys"])):
                    c = copy.deepcopy(prog)
                    del _pipes(c)[pi][ti]["keys"][ii]
                    yield c
            if t["t"] == "join" and t["src"]["k"] == "pipe":
                pass
            if t["t"] == "join" and t.get("side", "inner") != "inner":
                c = copy.deepcopy(prog)
                _pipes(c)[pi][ti]["side"] = "inner"
                yield c
            if t["t"] == "from" and t.get("alias") and t["src"]["k"] == "table":
                pass
    # 4. simplify expressions to leaves
    for pi in range(n_p):
        for ti, t in enumerate(_pipes(prog)[pi]):
            exprs = []
            if t["t"] in ("select", "derive", "aggregate"):
                exprs = [("items", i, 1) for i in range(len(t["items"]))]
            elif t["t"] == "filter":
                exprs = [("cond", None, None)]
            elif t["t"] == "sort":
                exprs = [("keys", i, 1) for i in range(len(t["keys"]))]
            for (fld, i, j) in exprs:
                e = t[fld] if i is None else t[fld][i][j]
                for sub in _subexprs(e):
                    if sub is e:
                        continue
                    if t["t"] == "aggregate" and not model.has_kind(sub, ("agg",)):
                        continue     # an aggregate item must stay an aggregation
                    if model.has_kind(e, ("win",)) and not model.has_kind(sub, ("win", "agg")):
                        continue
                    c = copy.deepcopy(prog)
                    tt = _pipes(c)[pi][ti]
                    if i is None:
                        tt[fld] = copy.deepcopy(sub)
                    else:
                        tt[fld][i][j] = copy.deepcopy(sub)
                    yield c
                if e[0] not in ("lit", "col") and t["t"] == "filter":
                    c = copy.deepcopy(prog)
                    _pipes(c)[pi][ti]["cond"] = ["lit", True]
                    yield c


def _subexprs(e):
    out = []
    if not isinstance(e, list) or not e:
        return out
    k = e[0]
    if k in ("bin",):
        out += [e[2], e[3]]
    elif k in ("neg", "not"):
        out.append(e[1])
    elif k == "case":
        for c, v in e[1]:
            out.append(v)
    elif k == "in":
        out.append(e[1])
    elif k == "agg" and e[2] is not None and e[2][0] not in ("col", "lit"):
        for s in _subexprs(e[2]):
            out.append(["agg", e[1], s])
    return out


def reduce_prog(prog, still_fails, max_tests=250):
    """Greedy 1-minimisation: apply any candidate that keeps the symptom."""
    tests = 0
    progress = True
    while progress and tests < max_tests:
        progress = False
        for c in _candidates(prog):
            tests += 1
            if tests > max_tests:
                break
            try:
                ok = still_fails(c)
            except Exception:
                ok = False
            if ok:
                prog = c
                progress = True
                break
    return prog


def reduce_db(db, still_fails, max_tests=60):
    tests = 0
    for t in list(db.keys()):
        rows = db[t]["rows"]
        i = len(rows) - 1
        while i >= 0 and tests < max_tests:
            cand = copy.deepcopy(db)
            del cand[t]["rows"][i]
            tests += 1
            if still_fails(cand):
                db = cand
            i -= 1
    return db


# ------------------------------------------------------------------ shapes

def shape_of(prog):
    """Canonical shape string of a (reduced) program: transform kinds with the
    structural attributes that matter, names and constants abstracted."""
    def ek(e):
        k = e[0]
        if k == "col":
            return "c"
        if k == "lit":
            return "null" if e[1] is None else "l"
        if k == "bin":
            return "(%s%s%s)" % (ek(e[2]), e[1], ek(e[3]))
        if k in ("neg", "not"):
            return ("-" if k == "neg" else "!") + ek(e[1])
        if k == "case":
            return "case"
        if k == "in":
            return "in"
        if k == "agg":
            return e[1] + "(" + (ek(e[2]) if e[2] is not None else "this") + ")"
        if k == "win":
            return e[1] + "()"
        return k

    def src(s):
        if s["k"] == "pipe":
            return "(" + pipe(s["pipe"]) + ")"
        return s["k"]

    def tk(t):
        k = t["t"]
        if k == "from":
            return "from:" + src(t["src"])
        if k in ("select", "derive", "aggregate"):
            return k + "{" + ",".join(("n=" if n else "") + ek(e) for n, e in t["items"]) + "}"
        if k == "filter":
            return "filter " + ek(t["cond"])
        if k == "exclude":
            return "exclude{%d}" % len(t["cols"])
        if k == "sort":
            return "sort{" + ",".join(("-" if d else "") + ek(e) for d, e in t["keys"]) + "}"
        if k == "take":
            lo, hi = t.get("lo"), t.get("hi")
            return "take " + ("n" if lo is None else ("a.." if hi is None else "a..b"))
        if k == "join":
            return "join:%s:%s" % (t.get("side", "inner"), src(t["src"]))
        if k == "append":
            return "append:" + src(t["src"])
        if k == "group":
            return "group%d(%s)" % (len(t["keys"]), pipe(t["pipe"]))
        if k == "window":
            return "window:%s(%s)" % (t["frame_src"][0], pipe(t["pipe"]))
        return k

    def pipe(p):
        return " | ".join(tk(t) for t in p)
    out = []
    for _, p in prog.get("lets", []):
        out.append("let(" + pipe(p) + ")")
    out.append(pipe(prog["main"]))
    return " ; ".join(out)


DB_KINDS = ["normal", "normal", "empty", "nulls", "dups"]


def explore_shard(prop, seed, shard, n_cases, profile, dialects=("sqlite", "generic"), props=None, reduce_budget=40, fixed=None, rotate=()):
    findings_cache = None
    """Generic exploration loop used by C01/C03/C04/C05.
    props: set of property ids whose symptoms this check owns."""
    rng = core.shard_rng(seed, prop + ":" + profile, shard)
    w = core.Worker()
    obs = {"cases": 0, "judged": 0, "rejected": 0, "unspecified": 0, "engine_unsupported": 0, "panic_or_abort": 0,
           "watchdog": 0, "gen_error": 0, "model_error": 0, "model_errors": {}, "other_property_symptoms": {}, "reject_reasons": {}, "unspecified_reasons": {},
           "nontrivial": set(), "bigrams": set(), "by_ctes": {}, "sql_features": {}, "empty_input_agg": 0, "samples": []}
    viols = []
    reduced_cache = {}
    n_reduced = 0
    dbi = 0
    nprog = shard
    # fixed: a list of (db, [programs]) enumerated by the caller (matrix phases) instead of random programs
    fixed_iter = iter(fixed) if fixed is not None else None
    while fixed_iter is not None or obs["cases"] < n_cases:
        if fixed_iter is not None:
            nxt = next(fixed_iter, None)
            if nxt is None:
                break
            db, fixed_progs = nxt
            dbkind = "fixed"
        else:
            dbkind = DB_KINDS[dbi % len(DB_KINDS)]
            dbi += 1
            db = grel.gen_db(rng, dbkind)
            fixed_progs = [None] * 12
        w.db_close_all()
        w.db_open("d", grel.db_stmts(db))
        for fprog in fixed_progs:
            try:
                prog = fprog if fprog is not None else grel.random_program(rng, profile)
                src = grel.pp_program(prog)
            except (ValueError, IndexError) as e:
                obs["gen_error"] += 1
                continue
            kinds = grel.kinds_of(prog)
            nprog += 1
            for dialect in tuple(dialects) + ((rotate[nprog % len(rotate)],) if rotate else ()):
                obs["cases"] += 1
                o = run_case(w, prog, db, "d", dialect, src=src)
                st = o.status
                if st in ("rejected",):
                    obs["rejected"] += 1
                    rr = o.obs.get("reject_reason", "?")
                    rr = re.sub(r"`[^`]*`", "`_`", rr)
                    obs["reject_reasons"][rr] = obs["reject_reasons"].get(rr, 0) + 1
                elif st in ("panic", "abort"):
                    obs["panic_or_abort"] += 1
                elif st in obs:
                    obs[st] += 1
                elif st:
                    obs[st] = obs.get(st, 0) + 1
                if st == "model_error":
                    me = re.sub(r"\d+", "N", o.obs.get("model_error", "?"))[:80]
                    obs["model_errors"][me] = obs["model_errors"].get(me, 0) + 1
                if st == "unspecified":
                    u = o.obs.get("unspecified", "?")
                    obs["unspecified_reasons"][u] = obs["unspecified_reasons"].get(u, 0) + 1
                if o.sql:
                    sh = o.obs["shape"]
                    for k, v in sh.items():
                        if v:
                            obs["sql_features"][k] = obs["sql_features"].get(k, 0) + 1
                    nc = min(sh["ctes"], 5)
                    obs["by_ctes"][str(nc)] = obs["by_ctes"].get(str(nc), 0) + 1
                if o.obs.get("static_frame"):
                    obs["static_frames_judged"] = obs.get("static_frames_judged", 0) + (1 if st == "judged" else 0)
                    if st == "judged" and ("EXCLUDE" in o.sql or "EXCEPT (" in o.sql or "EXCEPT(" in o.sql):
                        obs["static_frames_with_exclusion"] = obs.get("static_frames_with_exclusion", 0) + 1
                        if len(re.findall(r"\*", re.sub(r"'[^']*'", "", o.sql))) > 1:
                            obs["static_frames_with_exclusion_and_several_stars"] = obs.get("static_frames_with_exclusion_and_several_stars", 0) + 1
                if st == "judged" and o.model is not None and not o.obs.get("static_frame"):
                    sh = o.obs["shape"]
                    if o.obs.get("engine_disagreement"):
                        obs["engine_disagreements_resolved_by_second_sqlite"] = obs.get("engine_disagreements_resolved_by_second_sqlite", 0) + 1
                    if o.obs.get("ordered"):
                        obs["ordered_results"] = obs.get("ordered_results", 0) + 1
                    if o.obs.get("partially_ordered"):
                        obs["partially_ordered_results"] = obs.get("partially_ordered_results", 0) + 1
                    if (sh["ctes"] or sh["subqueries"]) and o.obs.get("nrows", 0) > 0:
                        obs["nontrivial"].add((tuple(kinds), sh["ctes"], sh["subqueries"]))
                    for a, b in zip(kinds, kinds[1:]):
                        obs["bigrams"].add((a.split("(")[0], b.split("(")[0]))
                    if dbkind == "empty" and any(k.startswith("aggregate") or k.startswith("group") for k in kinds):
                        obs["empty_input_agg"] += 1
                    if len(obs["samples"]) < 3 and sh["ctes"]:
                        obs["samples"].append({"prql": src, "sql": o.sql, "dialect": dialect, "rows": len(o.rows)})
                for (p, sym, det) in o.symptoms:
                    if props and p not in props:
                        d = obs["other_property_symptoms"]
                        d[p + ":" + sym] = d.get(p + ":" + sym, 0) + 1
                        continue
                    coarse = (p, sym, tuple(kinds), dialect)
                    if coarse in reduced_cache:
                        shape = reduced_cache[coarse]
                        viols.append({"property": p, "symptom": sym, "shape": dialect + " :: " + shape, "witness": None, "detail": det, "dup": True})
                        continue
                    fw2 = o.obs.get("frame_wildcard", False)
                    do_reduce = True
                    if n_reduced >= reduce_budget:
                        # past the budget a case is reduced only if its unreduced shape is not already
                        # attributable to a listed finding (reduction exists to attribute, not to report)
                        ushape = dialect + " :: " + (("[W] " if fw2 else "[K] ") if p == "C05" else "") + shape_of(prog)
                        if findings_cache is None:
                            findings_cache = core.load_findings()
                        for f in findings_cache:
                            if f.prop in (p, prop) and f.matches({"property": f.prop, "symptom": sym, "shape": ushape}):
                                do_reduce = False
                                break
                        obs["reductions_past_budget"] = obs.get("reductions_past_budget", 0) + (1 if do_reduce else 0)
                    if do_reduce:
                        n_reduced += 1
                        rp, rdb = reduce_case(w, prog, db, dialect, p, sym)
                        w.db_open("rdx", grel.db_stmts(rdb))
                        o2 = run_case(w, rp, rdb, "rdx", dialect)
                        w.db_close("rdx")
                        fw2 = o2.obs.get("frame_wildcard", fw2)
                        for (p2, s2, d2) in o2.symptoms:
                            if p2 == p and s2 == sym:
                                det = d2 + " || sql: " + (o2.sql or "")[:400]
                    else:
                        rp, rdb = prog, db
                    shape = shape_of(rp)
                    if p == "C05":
                        shape = ("[W] " if fw2 else "[K] ") + shape
                    reduced_cache[coarse] = shape
                    viols.append({"property": p, "symptom": sym, "shape": dialect + " :: " + shape,
                                  "witness": {"prog": rp, "db": rdb, "dialect": dialect, "prql": grel.pp_program(rp)},
                                  "detail": det})
    w.close()
    obs["nontrivial"] = list(obs["nontrivial"])
    obs["bigrams"] = list(obs["bigrams"])
    return viols, obs


def well_scoped(prog, db):
    """A reduction candidate must still be a well-scoped program of the model (dropping a derive
    must not leave a dangling reference that the compiler would pass to the database as a column)."""
    # references are checked statically by the model (check_refs); run it on empty tables so that no
    # data-dependent Unspecified cuts the walk short
    empty = {t: {"cols": d["cols"], "types": d.get("types"), "rows": []} for t, d in db.items()}
    for d in (empty, db):
        try:
            model.Interp(d).run(prog)
        except model.ModelError:
            return False
        except model.Unspecified:
            continue
        except Exception:
            return False
    return True


def reduce_case(w, prog, db, dialect, prop, symptom):
    def fails_with(p, d):
        if not well_scoped(p, d):
            return False
        w.db_open("rdx", grel.db_stmts(d))
        o = run_case(w, p, d, "rdx", dialect)
        return any(pp == prop and ss == symptom for (pp, ss, _) in o.symptoms)
    rp = reduce_prog(prog, lambda c: fails_with(c, db))
    rdb = reduce_db(db, lambda d: fails_with(rp, d))
    rp = reduce_prog(rp, lambda c: fails_with(c, rdb), max_tests=80)
    w.db_close("rdx")
    return rp, rdb


def replay_case(case, props):
    w = core.Worker()
    w.db_open("d", grel.db_stmts(case["db"]))
    o = run_case(w, case["prog"], case["db"], "d", case["dialect"])
    w.close()
    out = []
    for (p, sym, det) in o.symptoms:
        if p in props:
            out.append({"property": p, "symptom": sym, "shape": case["dialect"] + " :: " + (("[W] " if o.obs.get("frame_wildcard") else "[K] ") if p == "C05" else "") + shape_of(case["prog"]),
                        "witness": case, "detail": det})
    return out


def merge_obs(all_obs):
    tot = {}
    for o in all_obs:
        o = dict(o)
        nt = set(tuple(map(lambda x: tuple(x) if isinstance(x, list) else x, t)) for t in o.pop("nontrivial", []))
        bg = set(tuple(b) for b in o.pop("bigrams", []))
        samples = o.pop("samples", [])
        tot.setdefault("nontrivial", set())
        tot["nontrivial"] |= nt
        tot.setdefault("bigrams", set())
        tot["bigrams"] |= bg
        tot.setdefault("samples", [])
        if len(tot["samples"]) < 4:
            tot["samples"].extend(samples[:1])
        core.merge_counts(tot, o)
    return tot
