import json, os
from .core import ROOT
_cache = None
def load():
    global _cache
    if _cache is None:
        _cache = [json.loads(l) for l in open(os.path.join(ROOT, "corpus", "corpus.jsonl"), encoding="utf-8")]
    return _cache
def sources():
    return [o["src"] for o in load()]
