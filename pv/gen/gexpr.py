"""G-expr: expression trees over PRQL's binary/unary operators, with printers
(minimal parentheses per the *documented* precedence table, and fully
parenthesised) and a reader of the parser's PR JSON."""

# documented table (book: reference/syntax/operators): higher binds tighter
BIN = {
    "**": (6, "right"),
    "*": (5, "left"), "/": (5, "left"), "//": (5, "left"), "%": (5, "left"),
    "+": (4, "left"), "-": (4, "left"),
    "==": (3, "left"), "!=": (3, "left"), "<=": (3, "left"), ">=": (3, "left"), "<": (3, "left"), ">": (3, "left"), "~=": (3, "left"),
    "??": (2, "left"),
    "&&": (1, "left"),
    "||": (0, "left"),
}
BINOPS = list(BIN.keys())
PR_OP = {"Pow": "**", "Mul": "*", "DivFloat": "/", "DivInt": "//", "Mod": "%", "Add": "+", "Sub": "-", "Eq": "==", "Ne": "!=",
         "Lte": "<=", "Gte": ">=", "Lt": "<", "Gt": ">", "RegexSearch": "~=", "Coalesce": "??", "And": "&&", "Or": "||"}
UN = {"neg": "-", "not": "!", "pos": "+"}
PR_UN = {"Neg": "neg", "Not": "not", "Add": "pos"}

ARITH = ["**", "*", "/", "//", "%", "+", "-"]
CMP = ["==", "!=", "<=", ">=", "<", ">"]


def pp(e, mode="min"):
    """mode: min (documented table), full (every compound sub-expression parenthesised)."""
    return _pp(e, mode, None, None)


def _atom(e):
    k = e[0]
    if k == "col":
        return e[2]
    if k == "lit":
        v = e[1]
        if v is None:
            return "null"
        if isinstance(v, bool):
            return "true" if v else "false"
        if isinstance(v, str):
            return '"' + v.replace("\\", "\\\\").replace('"', '\\"') + '"'
        return repr(v)
    return None


def _pp(e, mode, parent_prec, side):
    k = e[0]
    a = _atom(e)
    if a is not None:
        return a
    if k in UN:
        inner = e[1]
        s = _pp(inner, mode, 99, "operand")
        if inner[0] in UN or inner[0] == "bin" or inner[0] == "case":
            if not s.startswith("("):
                s = "(" + s + ")"
        out = UN[k] + s
        # a unary is a term: it needs no parentheses under a binary operator
        if mode == "full" and parent_prec is not None:
            return "(" + out + ")"
        return out
    if k == "bin":
        op = e[1]
        prec, assoc = BIN[op]
        l = _pp(e[2], mode, prec, "left")
        r = _pp(e[3], mode, prec, "right")
        out = "%s %s %s" % (l, op, r)
        need = False
        if parent_prec is not None:
            if mode == "full":
                need = True
            elif parent_prec == 99:
                need = True
            elif prec < parent_prec:
                need = True
            elif prec == parent_prec:
                # equal precedence: parenthesise on the non-associating side
                passoc = "right" if parent_prec == 6 else "left"
                need = (side == "right" and passoc == "left") or (side == "left" and passoc == "right")
        return "(" + out + ")" if need else out
    if k == "case":
        return "case [" + ", ".join("%s => %s" % (_pp(c, mode, None, None), _pp(v, mode, None, None)) for c, v in e[1]) + "]"
    raise ValueError("pp " + repr(e))


def from_pr(j):
    """PR JSON expression (spans stripped) -> tree, or None if outside the G-expr language."""
    if not isinstance(j, dict):
        return None
    if "Ident" in j:
        parts = j["Ident"]
        if len(parts) == 1:
            return ["col", None, parts[0]]
        return None
    if "Literal" in j:
        lit = j["Literal"]
        if lit == "Null":
            return ["lit", None]
        if isinstance(lit, dict):
            for k in ("Integer", "Float", "Boolean", "String"):
                if k in lit:
                    return ["lit", lit[k]]
        return None
    if "Binary" in j:
        b = j["Binary"]
        l, r = from_pr(b["left"]), from_pr(b["right"])
        if l is None or r is None or b["op"] not in PR_OP:
            return None
        return ["bin", PR_OP[b["op"]], l, r]
    if "Unary" in j:
        u = j["Unary"]
        x = from_pr(u["expr"])
        if x is None or u["op"] not in PR_UN:
            return None
        return [PR_UN[u["op"]], x]
    if "Case" in j:
        out = []
        for c in j["Case"]:
            a, b = from_pr(c["condition"]), from_pr(c["value"])
            if a is None or b is None:
                return None
            out.append([a, b])
        return ["case", out]
    return None


def norm_tree(e):
    """Normalise for comparison: float literal 1.0 and int 1 stay distinct; lists only."""
    if isinstance(e, (list, tuple)):
        return [norm_tree(x) for x in e]
    return e


def same_tree(a, b):
    if isinstance(a, list) and isinstance(b, list):
        return len(a) == len(b) and all(same_tree(x, y) for x, y in zip(a, b))
    if isinstance(a, float) or isinstance(b, float):
        return type(a) is type(b) and a == b
    if isinstance(a, bool) or isinstance(b, bool):
        return type(a) is type(b) and a == b
    return a == b


COLS = ["a", "b", "c"]
EXTRA_COLS = []        # set by a check that provides more columns (C02: d, e = inlined negative constants)


def leaf(rng, kind="num"):
    r = rng.random()
    if r < 0.55:
        return ["col", None, rng.choice(COLS + (EXTRA_COLS if rng.random() < 0.25 else []))]
    if r < 0.65:
        return ["lit", None]
    if kind == "bool" and r < 0.8:
        return ["lit", rng.choice([True, False])]
    if r < 0.85:
        return ["lit", rng.choice([0, 1, 2, 3, 7])]
    return ["lit", rng.choice([0.5, 2.5, 1.0])]


def random_tree(rng, depth, ops=None, unary_p=0.15, case_p=0.05):
    ops = ops or [o for o in BINOPS if o != "~="]
    if depth <= 0 or rng.random() < 0.2:
        return leaf(rng)
    r = rng.random()
    if r < unary_p:
        inner = random_tree(rng, depth - 1, ops, unary_p, case_p)
        return [rng.choice(["neg", "not", "neg"]), inner]
    if r < unary_p + case_p:
        n = rng.randint(1, 2)
        return ["case", [[random_tree(rng, depth - 1, ops, unary_p, 0), random_tree(rng, depth - 1, ops, unary_p, 0)] for _ in range(n)]]
    op = rng.choice(ops)
    return ["bin", op, random_tree(rng, depth - 1, ops, unary_p, case_p), random_tree(rng, depth - 1, ops, unary_p, case_p)]


def all_triples(ops=None, leaves=None):
    """Every (parent op, child op, side) with column leaves: 17 x 17 x 2."""
    ops = ops or BINOPS
    out = []
    A, B, C = ["col", None, "a"], ["col", None, "b"], ["col", None, "c"]
    for p in ops:
        for c in ops:
            out.append(((p, c, "left"), ["bin", p, ["bin", c, A, B], C]))
            out.append(((p, c, "right"), ["bin", p, A, ["bin", c, B, C]]))
    return out


QUAD_REPS = ["*", "/", "%", "+", "-", "==", "&&", "??"]     # at least one per precedence class, plus the operators most dialects print from templates


def all_quads(gops=None, ops=None):
    """Depth-3 trees: parent p (or a unary) over child c whose OWN operands are compound (or a leaf) on each side:
    p(X, c(gl(a,b), gr(c,a))) and p(c(gl(a,b), gr(c,a)), X).  The text of such a child starts with the text of its
    left operand and ends with the text of its right operand - which may themselves be parenthesised - so whether the
    child as a whole needs parentheses cannot be told from its first and last character."""
    ops = ops or [o for o in BINOPS if o != "~="]
    gops = [None] + list(gops or QUAD_REPS)
    A, B, C = ["col", None, "a"], ["col", None, "b"], ["col", None, "c"]

    def g(op, x, y):
        return x if op is None else ["bin", op, x, y]
    out = []
    for c in ops:
        for gl in gops:
            for gr in gops:
                if gl is None and gr is None:
                    continue        # the plain triples cover leaf operands
                child = ["bin", c, g(gl, A, B), g(gr, C, A)]
                for p in ops:
                    out.append(((p, c, gl, gr, "right"), ["bin", p, B, child]))
                    out.append(((p, c, gl, gr, "left"), ["bin", p, child, B]))
                for u in ("neg", "not"):
                    out.append(((u, c, gl, gr, "over"), [u, child]))
    return out


def unary_triples(ops=None):
    ops = ops or BINOPS
    out = []
    A, B = ["col", None, "a"], ["col", None, "b"]
    for u in ("neg", "not", "pos"):
        for p in ops:
            out.append(((u, p, "over"), [u, ["bin", p, A, B]]))          # unary applied to a binary
            out.append(((p, u, "left"), ["bin", p, [u, A], B]))          # unary as left operand
            out.append(((p, u, "right"), ["bin", p, A, [u, B]]))         # unary as right operand
    return out


def ops_in(e, acc=None):
    acc = acc if acc is not None else []
    if isinstance(e, list) and e:
        if e[0] == "bin":
            acc.append(e[1])
            ops_in(e[2], acc)
            ops_in(e[3], acc)
        elif e[0] in UN:
            acc.append(e[0])
            ops_in(e[1], acc)
        elif e[0] == "case":
            acc.append("case")
            for c, v in e[1]:
                ops_in(c, acc)
                ops_in(v, acc)
    return acc


def triples_in(e, acc=None):
    """(parent, child, side) triples present in a tree."""
    acc = acc if acc is not None else set()
    if isinstance(e, list) and e:
        if e[0] == "bin":
            for side, ch in (("left", e[2]), ("right", e[3])):
                if ch[0] == "bin":
                    acc.add((e[1], ch[1], side))
                elif ch[0] in UN:
                    acc.add((e[1], ch[0], side))
                triples_in(ch, acc)
        elif e[0] in UN:
            if e[1][0] == "bin":
                acc.add((e[0], e[1][1], "over"))
            triples_in(e[1], acc)
        elif e[0] == "case":
            for c, v in e[1]:
                triples_in(c, acc)
                triples_in(v, acc)
    return acc
