"""G-mistake: programs a user could plausibly write that are well-formed text but wrong in TYPE, ARITY or
PLACE (not in scope: that is C10's workload) - the error paths of the resolver and of lowering that only
semantically wrong programs reach.  Every program parses; most must be rejected with an error, some are
accepted.  What C12 demands is only that none of them panics, aborts or hangs.

A program = base pipeline + one wrong step (+ optionally a continuation that uses the result)."""

BASES = [
    "from t",
    "from t | select {a, b, c}",
    "from t | derive {x = a + 1}",
    "from t | group {k} (aggregate {n = count this, s = sum a})",
    "from t | join u (==id)",
    "from t | sort {a} | take 5",
    "let l = (from t | select {a, b})\nfrom l",
    "from [{a = 1, b = 'x', c = 2.5}]",
]

SCALARS = ["1", "2.5", "'x'", "true", "null", "@2020-01-01", "@10:00", "@2020-01-01T10:00", "2days", "[1, 2]", "{p = 1}", "{}", "[]",
           "1..5", "(a -> a)", "sum", "std", "t", "this", "(from u)", "s'raw'", "f'{a}x'", "-a", "a", "(a + 1)", "(sum a)", "(lag 1 a)",
           "(case [a > 1 => 1])", "(a ?? 0)", "math.pi", "[{q = 1}]"]

STEPS = []


def _steps():
    if STEPS:
        return STEPS
    S = STEPS
    # --- append / set operations: arity and type mismatches
    for v in SCALARS:
        S.append("select {a = 1} | append (from u | select {a = %s})" % v)
        S.append("select {a = %s} | append (from u | select {a = 1})" % v)
        S.append("select {a = %s, b = 2} | remove (from u | select {a = 1, b = %s})" % (v, v))
    for top, bot in (("{a}", "{a, b}"), ("{a, b}", "{a}"), ("{a, b, c}", "{}"), ("{}", "{a}"), ("{a = 1, b = 2}", "{b = 1, a = 'x'}"), ("{a}", "{a = {b = 1}}")):
        for op in ("append", "remove", "intersect"):
            S.append("select %s | %s (from u | select %s)" % (top, op, bot))
    S += ["append 5", "append 'x'", "append {a = 1}", "append [1, 2]", "append [{a = 1}, {b = 2}]", "append [{a = 1}, {a = 'x'}]", "append t.a", "append this",
          "append (from u | aggregate {n = count this})", "append [{a = 1, a = 2}]", "append [{}]", "append []", "append (a -> a)", "append sum"]
    # --- transforms given a value of the wrong type
    for v in SCALARS:
        S.append("take %s" % v)
        S.append("filter %s" % v)
        S.append("sort %s" % v)
        S.append("sort {%s}" % v)
        S.append("join u (%s)" % v)
        S.append("join %s (==a)" % v)
        S.append("group %s (take 1)" % v)
        S.append("group {a} (%s)" % v)
        S.append("group {a} (aggregate {x = %s})" % v)
        S.append("aggregate {x = %s}" % v)
        S.append("aggregate %s" % v)
        S.append("derive {x = %s}" % v)
        S.append("derive %s" % v)
        S.append("select %s" % v)
        S.append("select {%s}" % v)
        S.append("select !{%s}" % v)
        S.append("select !%s" % v)
        S.append("window rows:%s (derive {w = sum a})" % v)
        S.append("window rolling:%s (derive {w = sum a})" % v)
        S.append("window range:%s (sort a | derive {w = sum a})" % v)
        S.append("window expanding:%s (derive {w = sum a})" % v)
        S.append("window (%s)" % v)
        S.append("loop (%s)" % v)
        S.append("from %s" % v)
        S.append("derive {x = a + %s}" % v)
        S.append("derive {x = %s + %s}" % (v, v))
        S.append("derive {x = -%s}" % v)
        S.append("derive {x = !%s}" % v)
        S.append("derive {x = %s ?? 1}" % v)
        S.append("derive {x = %s == null}" % v)
        S.append("derive {x = (a | in %s)}" % v)
        S.append("derive {x = (%s | in 1..5)}" % v)
        S.append("derive {x = a ~= %s}" % v)
        S.append("derive {x = case [%s => 1, true => 2]}" % v)
        S.append("derive {x = case [a > 1 => %s, true => 2]}" % v)
        S.append("derive {x = f'{%s}'}" % v)
        S.append("derive {x = s'F({%s})'}" % v)
        S.append("derive {x = (%s | as int)}" % v)
        S.append("derive {x = (text.length %s)}" % v)
        S.append("derive {x = (math.round %s a)}" % v)
        S.append("derive {x = (date.to_text %s a)}" % v)
        S.append("derive {x = (sum %s)}" % v)
        S.append("derive {x = (lag %s a)}" % v)
        S.append("derive {x = (%s).p}" % v)
        S.append("derive {x = %s.0}" % v)
        S.append("join side:%s u (==a)" % v)
        S.append("sort {-%s}" % v)
        S.append("sort {+%s}" % v)
        S.append("take %s..%s" % (v, v))
    # --- arity: too few / too many / misplaced arguments
    S += ["take", "take 1 2", "filter", "filter a b", "sort", "sort a b", "join u", "join", "join u (==a) (==b)", "group", "group {a}", "group {a} (take 1) 5",
          "aggregate", "aggregate {n = count this} {m = 1}", "derive", "select", "window", "loop", "append", "from", "derive {x = (sum)}", "derive {x = (sum a b)}",
          "derive {x = (lag a)}", "derive {x = (math.round a)}", "derive {x = (math.round 1 2 3)}", "derive {x = (count)}", "derive {x = (text.replace a)}",
          "derive {x = (a | text.upper | text.length | sum | sum)}", "derive {x = (case)}", "derive {x = case []}", "derive {x = case [true]}", "derive {x = (in a)}",
          "take 5..2", "take 0", "take -1", "take 0..0", "take ..", "take 1..2..3", "take (1 + 1)", "take 9223372036854775807..9223372036854775807",
          "sort {a = b}", "sort {-{a}}", "sort {{a}}", "filter {a}", "filter {a > 1}", "filter [a > 1]", "group {} (take 1)", "group {a, a} (take 1)",
          "group {a = b} (aggregate {n = count this})", "group {a + 1} (take 1)", "group {1} (aggregate {n = count this})", "group a (group b (group c (take 1)))",
          "group a (join u (==a))", "group a (append (from u))", "group a (from u)", "group a (loop (take 1))", "group a (window rows:0..1 (take 1))",
          "window rows:1..0 (derive {w = sum a})", "window rows:..  (derive {w = sum a})", "window rows:0..1 range:0..1 (derive {w = sum a})",
          "window rolling:0 (derive {w = sum a})", "window rolling:-3 (derive {w = sum a})", "window rows:0..1 (aggregate {w = sum a})", "window rows:0..1 (take 2)",
          "window rows:0..1 (filter a > 1)", "window rows:0..1 (join u (==a))", "window rows:0..1 (window rows:0..1 (derive {w = sum a}))",
          "aggregate {n = (sum (sum a))}", "aggregate {n = (sum (lag 1 a))}", "derive {w = (lag 1 (sum a))}", "filter (sum a) > 1", "filter (lag 1 a) > 1",
          "sort {(sum a)}", "join u ((sum a) == u.a)", "group {(sum a)} (take 1)", "take (sum a)", "aggregate {a} | derive {b = a}", "aggregate {}", "aggregate {a, b}",
          "select {} | derive {x = 1}", "select {} | sort a", "select {} | take 1", "select {} | aggregate {n = count this}", "select {} | join u (==a)",
          "select {a} | select {a.b}", "select {a = {b = 1, c = 2}} | select {a.b, a.c, a.d}", "select {a = {b = {c = 1}}} | derive {x = a.b.c.d}",
          "derive {this = 1}", "derive {that = 1}", "derive {std = 1}", "derive {`a.b` = 1} | select {`a.b`}", "derive {x = this}", "derive {x = that}", "derive {x = this.this}",
          "derive {x = this.*}", "derive {x = t.*}", "select {t.*, t.*}", "select {*}", "derive {x = *}", "filter *", "sort *", "select !{*}", "select !{t.*}",
          "select {x = a, x = b, x = c}", "derive {a = a}", "derive {a = a + 1, a = a + 1, a = a + 1}", "select {a, a, a} | select {a}", "join t (==a)", "join t (t.a == t.a)",
          "join x = t (x.a == x.a)", "join this (==a)", "join that (==a)", "join u (that.a == this.a)", "join u (==nosuch)", "join u (==a) | join u (==a) | join u (==a)",
          "loop (filter a > 1)", "loop (select {a})", "loop (aggregate {n = count this})", "loop (take 1)", "loop (loop (filter a > 1))", "loop (join u (==a))",
          "derive {x = (1 | 2)}", "derive {x = (a | a)}", "derive {x = (a | sum | a)}", "derive {x = (from u | take 1)}", "derive {x = (t | take 1)}",
          "derive {x = [a, 'x', 1.5]}", "derive {x = [[a]]}", "derive {x = {a, {b, {c}}}}", "derive {x = [a].0}", "derive {x = {a}.0}", "derive {x = {a}.a.a}",
          "derive {x = 1 / 0}", "derive {x = 1 // 0}", "derive {x = 1 % 0}", "derive {x = 2 ** -1}", "derive {x = 9223372036854775807 + 1}", "derive {x = -9223372036854775808}",
          "derive {x = 1e400}", "derive {x = @2020-13-45}", "derive {x = @25:61}", "derive {x = 5years + 3}", "derive {x = @2020-01-01 + 1}", "derive {x = @2020-01-01 - @2019-01-01}",
          "derive {x = 'a' + 'b'}", "derive {x = 'a' * 2}", "derive {x = true + true}", "derive {x = null + null}", "derive {x = a && 1}", "derive {x = !a}", "derive {x = -'x'}",
          "derive {x = a == }", "derive {x = (a -> a + 1)}", "derive {x = (a -> a + 1) 2}", "derive {x = ((a b -> a + b) 1)}", "derive {x = ((a -> b -> a + b) 1 2)}",
          "derive {x = (func a -> a) 1}", "derive {x = sum}", "derive {x = std.sum}", "derive {x = math}", "derive {x = std.math}", "derive {x = date.to_text}", "derive {x = prql.version}",
          "derive {x = prql}", "derive {x = default_db}", "derive {x = default_db.t}", "derive {x = default_db.t.a}", "derive {x = db.t.a}", "derive {x = _param}", "derive {x = $1 + $2}",
          "derive {x = $}", "filter $1", "take $1", "sort $1", "from $1", "join $1 (==a)",
          "derive {x<int> = 'x'}", "derive {x = (1 | as nosuch)}", "derive {x = (a | as)}", "derive {x = (a | as {int})}"]
    return S


TAILS = ["", " | select {a}", " | derive {y = x}", " | filter a > 1", " | aggregate {n = count this}", " | sort a | take 1", " | join v (==a)", " | group a (take 1)"]


def programs(tier="quick"):
    """-> [(name, source)]: every step after every base; continuations only for a rotating subset at the quick tier."""
    out = []
    steps = _steps()
    for bi, base in enumerate(BASES):
        for si, step in enumerate(steps):
            if step.startswith("from "):
                src = step if bi == 0 else None
                if src is None:
                    continue
            else:
                src = base + " | " + step
            tails = TAILS if tier != "quick" else [TAILS[0], TAILS[1 + (si + bi) % (len(TAILS) - 1)]]
            if tier == "quick" and bi not in (0, 1, 1 + si % (len(BASES) - 1)):
                continue
            for tl in tails:
                out.append(("mistake:%d:%d" % (bi, si), src + tl))
    return out
