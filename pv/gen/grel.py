"""G-rel: typed, scope-aware generator of relational-core PRQL programs.

Emits an abstract program (JSON-able, consumed by pv.ref.model) and PRQL text.
Programs are well-scoped by construction with respect to what the compiler
can know (tables are opaque: their columns must be qualified when more than
one relation is in scope).
"""
import random, re

# ------------------------------------------------------------------ schema / data

SCHEMA = {
    "t1": [("id", "int"), ("k", "int"), ("a", "int"), ("b", "float"), ("s", "text")],
    "t2": [("id", "int"), ("k", "int"), ("a", "int"), ("c", "int"), ("s", "text")],
    "t3": [("k", "int"), ("d", "int"), ("e", "text")],
}
SQLTYPE = {"int": "INTEGER", "float": "REAL", "text": "TEXT", "bool": "INTEGER"}
TEXTS = ["x", "y", "z", "xy", ""]


def gen_value(rng, ty, null_p):
    if rng.random() < null_p:
        return None
    if ty == "int":
        return rng.choice([-3, -1, 0, 1, 2, 2, 3, 5, 7, 9])
    if ty == "float":
        return rng.choice([-2.5, -0.5, 0.0, 0.5, 1.0, 1.5, 2.25, 4.0])
    if ty == "text":
        return rng.choice(TEXTS)
    raise ValueError(ty)


def gen_db(rng, kind="normal"):
    """kind: normal | empty | nulls | dups"""
    db = {}
    for t, cols in SCHEMA.items():
        n = rng.randint(0, 7)
        if kind == "empty" and t == "t1":
            n = 0
        if kind == "empty" and t != "t1" and rng.random() < 0.3:
            n = 0
        null_p = 0.45 if kind == "nulls" else 0.15
        rows = []
        for i in range(n):
            row = []
            for (c, ty) in cols:
                if c == "id":
                    if t == "t1":
                        row.append(i + 1)
                    else:
                        row.append(rng.randint(1, 6))
                elif c == "k":
                    row.append(None if rng.random() < null_p else rng.randint(1, 3))
                else:
                    row.append(gen_value(rng, ty, null_p))
            rows.append(row)
        if kind == "dups" and rows:
            extra = []
            for _ in range(rng.randint(1, 3)):
                r = list(rng.choice(rows))
                if t == "t1":
                    r[0] = len(rows) + len(extra) + 1      # t1.id stays unique
                extra.append(r)
            rows += extra
        if t == "t1":
            rng.shuffle(rows)
        db[t] = {"cols": [c for c, _ in cols], "types": [ty for _, ty in cols], "rows": rows}
    return db


def sql_lit(v):
    if v is None:
        return "NULL"
    if isinstance(v, bool):
        return "1" if v else "0"
    if isinstance(v, (int, float)):
        return repr(v)
    return "'" + str(v).replace("'", "''") + "'"


def sql_ident(s):
    return '"' + s.replace('"', '""') + '"'


def db_stmts(db, rename=None):
    """SQL to create the instance; `rename` maps table and column names (C09)."""
    rn = rename or {}
    out = []
    for t, d in db.items():
        tn = rn.get(("table", t), t)
        cols = ", ".join("%s %s" % (sql_ident(rn.get(("col", t, c), c)), SQLTYPE[ty]) for c, ty in zip(d["cols"], d["types"]))
        out.append("CREATE TABLE %s (%s);" % (sql_ident(tn), cols))
        for r in d["rows"]:
            out.append("INSERT INTO %s VALUES (%s);" % (sql_ident(tn), ", ".join(sql_lit(v) for v in r)))
    return ["\n".join(out)]


# ------------------------------------------------------------------ printing

KEYWORDS = {"let", "into", "case", "prql", "type", "module", "internal", "func", "import", "enum", "true", "false", "null",
            "this", "that", "from", "select", "derive", "filter", "take", "sort", "join", "aggregate", "group", "window", "append",
            "std", "in"}


def pp_ident(n):
    if re.fullmatch(r"[a-z_][a-z0-9_]*", n) and n not in ("let", "into", "case", "prql", "type", "module", "internal", "func", "import", "enum", "true", "false", "null"):
        return n
    return "`" + n + "`"


def pp_lit(v):
    if v is None:
        return "null"
    if isinstance(v, bool):
        return "true" if v else "false"
    if isinstance(v, int):
        return str(v) if v >= 0 else "(%d)" % v
    if isinstance(v, float):
        s = repr(v)
        if "e" in s or "E" in s or "inf" in s or "nan" in s:
            raise ValueError("float literal " + s)
        return s if v >= 0 else "(%s)" % s
    return '"' + v.replace("\\", "\\\\").replace('"', '\\"') + '"'


def pp_expr(e):
    k = e[0]
    if k == "col":
        return (pp_ident(e[1]) + "." if e[1] and not (len(e) > 3 and e[3] == "bare") else "") + pp_ident(e[2])
    if k == "lit":
        return pp_lit(e[1])
    if k == "neg":
        return "(-%s)" % pp_expr(e[1])
    if k == "not":
        return "(!%s)" % pp_expr(e[1])
    if k == "bin":
        return "(%s %s %s)" % (pp_expr(e[2]), e[1], pp_expr(e[3]))
    if k == "case":
        return "case [%s]" % ", ".join("%s => %s" % (pp_expr(c), pp_expr(v)) for c, v in e[1])
    if k == "in":
        return "(%s | in %s..%s)" % (pp_expr(e[1]), pp_expr(e[2]), pp_expr(e[3]))
    if k == "param":
        return e[1]
    if k == "call":
        # ["call", fname, [positional args], {named: arg}, piped(bool)]
        named = "".join(" %s:%s" % (n, pp_expr(a)) for n, a in sorted((e[3] or {}).items()))
        args = [pp_expr(a) for a in e[2]]
        if len(e) > 4 and e[4] and args:
            return "(%s | %s%s%s)" % (args[-1], e[1], named, "".join(" " + a for a in args[:-1]))
        return "(%s%s%s)" % (e[1], named, "".join(" " + a for a in args))
    if k == "agg":
        return "(%s %s)" % (e[1], pp_expr(e[2]) if e[2] is not None else "this")
    if k == "win":
        fn, args = e[1], e[2]
        if fn in ("lag", "lead"):
            return "(%s %d %s)" % (fn, args[0], pp_expr(args[1]))
        if fn in ("first", "last"):
            return "(%s %s)" % (fn, pp_expr(args[0]))
        if fn == "row_number":
            return "(row_number this)"
        return "(%s %s)" % (fn, pp_expr(args[0]) if args else "this")
    raise ValueError("pp_expr " + repr(e))


def pp_items(items):
    out = []
    for name, e in items:
        out.append(("%s = %s" % (pp_ident(name), pp_expr(e))) if name is not None else pp_expr(e))
    return "{" + ", ".join(out) + "}"


def pp_source(src, indent):
    k = src["k"]
    if k == "let" and src.get("module"):
        return src["module"] + "." + pp_ident(src["name"])
    if k in ("table", "let"):
        return pp_ident(src["name"])
    if k == "lit":
        rows = []
        for r in src["rows"]:
            rows.append("{" + ", ".join("%s = %s" % (pp_ident(c), pp_lit(v)) for c, v in zip(src["cols"], r)) + "}")
        return "[" + ", ".join(rows) + "]"
    if k == "pipe":
        return "(\n" + pp_pipeline(src["pipe"], indent + "  ") + "\n" + indent + ")"
    raise ValueError(k)


def pp_range(lo, hi):
    if lo is None and hi is not None:
        return "..%d" % hi
    if hi is None:
        return "%d.." % lo
    return "%d..%d" % (lo, hi)


def pp_frame(fr):
    kind, lo, hi = fr
    if kind == "rolling":
        return "rolling:%d" % lo
    if kind == "expanding":
        return "expanding:true"
    def b(x):
        return "" if x is None else (str(x) if x >= 0 else "(%d)" % x)
    return "%s:%s..%s" % (kind, b(lo), b(hi))


def pp_transform(t, indent):
    k = t["t"]
    if k == "from":
        a = (pp_ident(t["alias"]) + " = ") if t.get("alias") else ""
        return "from %s%s" % (a, pp_source(t["src"], indent))
    if k in ("select", "derive"):
        return "%s %s" % (k, pp_items(t["items"]))
    if k == "filter":
        return "filter %s" % pp_expr(t["cond"])
    if k == "exclude":
        return "select !{%s}" % ", ".join(pp_expr(e) for e in t["cols"])
    if k == "sort":
        return "sort {%s}" % ", ".join(("-" if d else "") + pp_expr(e) for d, e in t["keys"])
    if k == "take":
        lo, hi = t.get("lo"), t.get("hi")
        if lo is None and hi is not None and t.get("plain"):
            return "take %d" % hi
        return "take %s" % pp_range(lo if lo is not None else None, hi)
    if k == "join":
        a = (pp_ident(t["alias"]) + " = ") if t.get("alias") else ""
        side = "" if t.get("side", "inner") == "inner" and not t.get("explicit_side") else "side:%s " % t["side"]
        cond = t.get("cond_text") or pp_expr(t["cond"])
        return "join %s%s%s (%s)" % (side, a, pp_source(t["src"], indent), cond)
    if k == "append":
        return "append %s" % pp_source(t["src"], indent)
    if k == "aggregate":
        return "aggregate %s" % pp_items(t["items"])
    if k == "group":
        return "group {%s} (\n%s\n%s)" % (", ".join(pp_expr(e) for e in t["keys"]), pp_pipeline(t["pipe"], indent + "  "), indent)
    if k == "window":
        return "window %s (\n%s\n%s)" % (pp_frame(t["frame_src"]), pp_pipeline(t["pipe"], indent + "  "), indent)
    raise ValueError(k)


def pp_pipeline(pipe, indent=""):
    return "\n".join(indent + pp_transform(t, indent) for t in pipe)


def pp_program(prog, header=None):
    out = []
    if header:
        out.append(header)
    for f in prog.get("funcs", []):
        params = " ".join(f["params"]) + "".join(" %s:%s" % (n, pp_expr(d)) for n, d in f.get("named", []))
        out.append("let %s = %s -> %s" % (f["name"], params.strip(), pp_expr(f["body"])))
    mod = prog.get("module")
    for name, pipe in prog.get("lets", []):
        text = "let %s = (\n%s\n)" % (pp_ident(name), pp_pipeline(pipe, "  "))
        if mod and name in mod["members"]:
            text = "module %s {\n%s\n}" % (mod["name"], "\n".join("  " + l for l in text.split("\n")))
        out.append(text)
    out.append(pp_pipeline(prog["main"]))
    return "\n".join(out) + "\n"


# ------------------------------------------------------------------ scopes

class GCol:
    __slots__ = ("qual", "name", "ty", "wild", "uniq")

    def __init__(self, qual, name, ty, wild=False, uniq=False):
        self.qual, self.name, self.ty, self.wild, self.uniq = qual, name, ty, wild, uniq

    def clone(self, **kw):
        c = GCol(self.qual, self.name, self.ty, self.wild, self.uniq)
        for k, v in kw.items():
            setattr(c, k, v)
        return c


def known_frame(cols):
    """In a fully known frame names are unique: a later column un-names an earlier one of the same name."""
    seen = {}
    out = [c.clone() for c in cols]
    for i, c in enumerate(out):
        if c.name is None:
            continue
        if c.name in seen:
            out[seen[c.name]].name = None
            out[seen[c.name]].qual = None
        seen[c.name] = i
    return out


class Scope:
    def __init__(self, cols, nwild, dedupe=True):
        # dedupe: a projection (select / aggregate / append) un-names an earlier column of the same name; a join
        # keeps both sides' columns addressable by their qualifiers, and transforms that pass columns through
        # (filter, sort, take, derive of fresh names) leave the frame's names alone
        if nwild == 0 and dedupe:
            cols = known_frame(cols)
        self.cols = cols          # list of GCol (named ones only are referable)
        self.nwild = nwild        # number of opaque (wildcard) relations in scope
        self.ordered = False

    def referable(self, ty=None):
        out = []
        for c in self.cols:
            if c.name is None:
                continue
            if ty is not None and not ty_ok(c.ty, ty):
                continue
            # must be uniquely addressable
            same = [d for d in self.cols if d.name == c.name and (c.qual is None or d.qual == c.qual or d.qual is None)]
            if len(same) != 1:
                continue
            out.append(c)
        return out


def ty_ok(have, want):
    if want == "num":
        return have in ("int", "float")
    return have == want


# ------------------------------------------------------------------ generator

class Gen:
    def __init__(self, rng, profile=None):
        self.rng = rng
        self.p = dict(DEFAULT_PROFILE)
        if profile:
            self.p.update(profile)
        self.fresh = 0
        self.alias_n = 0
        self.lets = []          # (name, pipe, cols[GCol])

    # -- names
    def new_name(self, prefix="n"):
        self.fresh += 1
        return "%s%d" % (prefix, self.fresh)

    def new_alias(self):
        self.alias_n += 1
        return "r%d" % self.alias_n

    # -- expressions
    def ref(self, sc, c):
        e = ["col", c.qual, c.name]
        if c.qual is not None:
            # a bare name is resolvable when the frame is fully known and the name is unique in it,
            # or when exactly one opaque relation is in scope and no known column has that name
            names = [d.name for d in sc.cols if d.name == c.name]
            if len(names) == 1 and (sc.nwild == 0 or (sc.nwild == 1 and c.wild)) and self.rng.random() < self.p["bare_ref"]:
                e = ["col", c.qual, c.name, "bare"]
        return e

    def leaf(self, sc, ty):
        cands = sc.referable(ty)
        if cands and self.rng.random() < 0.7:
            return self.ref(sc, self.rng.choice(cands)), True
        return self.lit(ty), False

    def lit(self, ty):
        r = self.rng
        if ty in ("int", "num"):
            return ["lit", r.choice([-2, -1, 0, 1, 2, 3, 5, 10])]
        if ty == "float":
            return ["lit", r.choice([-1.5, 0.5, 1.0, 2.5, 0.25])]
        if ty == "text":
            return ["lit", r.choice(TEXTS + ["q"])]
        if ty == "bool":
            return ["lit", r.choice([True, False])]
        raise ValueError(ty)

    def expr(self, sc, ty, depth=0):
        r = self.rng
        if depth >= self.p["max_depth"] or r.random() < 0.3:
            return self.leaf(sc, ty)[0]
        if ty in ("int", "num", "float"):
            c = r.random()
            if c < 0.5:
                op = r.choice(["+", "-", "*"])
                return ["bin", op, self.expr(sc, ty, depth + 1), self.expr(sc, ty if ty != "num" else r.choice(["int", "float"]), depth + 1)]
            if c < 0.6:
                return ["neg", self.expr(sc, ty, depth + 1)]
            if c < 0.72:
                return ["bin", "??", self.leaf(sc, ty)[0], self.lit(ty)]
            if c < 0.85:
                return ["case", [[self.cond(sc, depth + 1), self.expr(sc, ty, depth + 1)],
                                 [["lit", True], self.lit(ty)]] if r.random() < 0.6 else
                        [[self.cond(sc, depth + 1), self.expr(sc, ty, depth + 1)]]]
            if ty == "float" or ty == "num":
                return ["bin", "/", self.expr(sc, "int", depth + 1), ["lit", r.choice([2.0, 4.0, -2.0])]]
            return self.leaf(sc, ty)[0]
        if ty == "text":
            c = r.random()
            if c < 0.3:
                return ["bin", "??", self.leaf(sc, "text")[0], self.lit("text")]
            if c < 0.5:
                return ["case", [[self.cond(sc, depth + 1), self.leaf(sc, "text")[0]], [["lit", True], self.lit("text")]]]
            return self.leaf(sc, "text")[0]
        if ty == "bool":
            c = r.random()
            if c < 0.45:
                t = r.choice(["int", "int", "float", "text"])
                op = r.choice(["==", "!=", "<", "<=", ">", ">="])
                l, isref = self.leaf(sc, t)
                rr = self.expr(sc, t, depth + 1) if t != "text" else self.leaf(sc, "text")[0]
                return ["bin", op, l, rr]
            if c < 0.6:
                cands = sc.referable()
                if cands:
                    return ["bin", r.choice(["==", "!="]), self.ref(sc, r.choice(cands)), ["lit", None]]
            if c < 0.8:
                return ["bin", r.choice(["&&", "||"]), self.expr(sc, "bool", depth + 1), self.expr(sc, "bool", depth + 1)]
            if c < 0.88:
                return ["not", self.expr(sc, "bool", depth + 1)]
            if c < 0.95:
                lo = r.randint(-1, 3)
                return ["in", self.leaf(sc, "int")[0], ["lit", lo], ["lit", lo + r.randint(0, 4)]]
            return self.lit("bool")
        raise ValueError(ty)

    def cond(self, sc, depth):
        """A boolean expression that is not a bare literal (constant case conditions are C02's subject)."""
        for _ in range(5):
            e = self.expr(sc, "bool", depth)
            if e[0] != "lit":
                return e
        cands = sc.referable()
        if cands:
            return ["bin", "!=", self.ref(sc, self.rng.choice(cands)), ["lit", None]]
        return ["bin", "<", ["lit", 1], ["lit", 2]]

    def agg_expr(self, sc):
        r = self.rng
        fn = r.choice(["sum", "min", "max", "average", "count", "count", "sum"])
        if fn == "count":
            if r.random() < 0.5:
                return ["agg", "count", None], "int"
            c = r.choice(sc.referable() or [None])
            return ["agg", "count", self.ref(sc, c) if c else None], "int"
        if fn in ("min", "max") and r.random() < 0.3 and sc.referable("text"):
            return ["agg", fn, self.ref(sc, r.choice(sc.referable("text")))], "text"
        ty = r.choice(["int", "int", "float"])
        arg = self.expr(sc, ty, self.p["max_depth"] - 1)
        e = ["agg", fn, arg]
        oty = "float" if (fn == "average" or ty == "float") else "int"
        if r.random() < 0.15:
            e = ["bin", r.choice(["+", "*"]), e, ["lit", r.choice([1, 2])]]
        return e, oty

    # -- sources
    def table_source(self, sc_known_only=False):
        r = self.rng
        c = r.random()
        if self.lets and c < self.p["use_let"]:
            ent = r.choice(self.lets)
            name, cols = ent[0], ent[2]
            self.last_source_ordered = len(ent) > 3 and ent[3]
            return {"k": "let", "name": name}, [x.clone(wild=False) for x in cols], False
        if c < self.p["use_let"] + self.p["use_lit"]:
            n = r.randint(0 if self.p.get("empty_lit") else 1, 3)
            cols = [("id", "int"), ("v", "int"), ("w", "text")][:r.randint(1, 3)]
            rows = [[(i + 1) if cn == "id" else gen_value(r, ty, 0.2) for cn, ty in cols] for i in range(max(n, 1))]
            return {"k": "lit", "cols": [cn for cn, _ in cols], "rows": rows}, [GCol(None, cn, ty, False, cn == "id") for cn, ty in cols], False
        t = r.choice(["t1", "t1", "t2", "t3"])
        return {"k": "table", "name": t}, [GCol(None, cn, ty, True, (t == "t1" and cn == "id")) for cn, ty in SCHEMA[t]], True

    # -- transforms
    def t_from(self):
        self.last_source_ordered = False
        src, cols, wild = self.table_source()
        alias = self.new_alias() if (self.rng.random() < self.p["alias"] or src["k"] == "lit") else None
        q = alias or src.get("name")
        cols = [c.clone(qual=q) for c in cols]
        sc = Scope(cols, 1 if wild else 0)
        # a let that ends sorted hands its order to the pipeline that reads it
        sc.ordered = bool(self.last_source_ordered)
        return {"t": "from", "src": src, "alias": alias}, sc

    def t_select(self, sc):
        r = self.rng
        refs = sc.referable()
        if not refs:
            return None
        n = r.randint(1, min(4, len(refs)))
        items, cols = [], []
        picked = r.sample(refs, n)
        quals = sorted({c.qual for c in refs if c.qual})
        if len(quals) >= 2 and r.random() < 0.4:
            # semi-join pattern: project back to exactly the columns of one of the joined relations
            q = r.choice(quals)
            side = [c for c in refs if c.qual == q]
            if 1 <= len(side) <= 5:
                items = [[None, self.ref(sc, c)] for c in side]
                nsc = Scope([c.clone(wild=False) for c in side], 0)
                nsc.ordered = sc.ordered
                return {"t": "select", "items": items}, nsc
        used = set()
        for c in picked:
            if c.name in used:
                continue
            if r.random() < 0.75:
                items.append([None, self.ref(sc, c)])
                cols.append(c.clone(wild=False))
                used.add(c.name)
            else:
                nm = self.new_name()
                items.append([nm, self.ref(sc, c)])
                cols.append(GCol(None, nm, c.ty, False, c.uniq))
        if r.random() < 0.5:
            ty = r.choice(["int", "float", "bool", "text"])
            e = self.expr(sc, ty)
            # sometimes a computed column without a name (it cannot be referred to afterwards)
            nm = None if (e[0] not in ("col", "lit") and r.random() < self.p["unnamed"]) else self.new_name()
            items.append([nm, e])
            cols.append(GCol(None, nm, ty))
        nsc = Scope(cols, 0)
        nsc.ordered = sc.ordered
        return {"t": "select", "items": items}, nsc

    def t_derive(self, sc):
        r = self.rng
        items, cols = [], list(sc.cols)
        for _ in range(r.randint(1, 2)):
            ty = r.choice(["int", "int", "float", "bool", "text"])
            nm = self.new_name()
            items.append([nm, self.expr(sc, ty)])
            cols.append(GCol(None, nm, ty))
        nsc = Scope(cols, sc.nwild, dedupe=False)
        nsc.ordered = sc.ordered
        return {"t": "derive", "items": items}, nsc

    def t_exclude(self, sc):
        """select !{..}: all columns of the frame except the named ones."""
        r = self.rng
        refs = sc.referable()
        named = [c for c in sc.cols if c.name is not None]
        if len(refs) < 1 or len(named) < 2:
            return None
        if sc.nwild > 1:
            return None
        picked = r.sample(refs, r.randint(1, min(2, len(named) - 1, len(refs))))
        cols = [self.ref(sc, c) for c in picked]
        rest = [c.clone() for c in sc.cols if not any(c is p for p in picked)]
        nsc = Scope(rest, sc.nwild, dedupe=False)
        nsc.ordered = sc.ordered
        return {"t": "exclude", "cols": cols}, nsc

    def t_filter(self, sc):
        nsc = Scope(sc.cols, sc.nwild, dedupe=False)
        nsc.ordered = sc.ordered
        r = self.rng
        cond = self.expr(sc, "bool")
        if r.random() < 0.3:
            # conjunctions of conditions, one of them a disjunction: the shapes that splitting a filter in
            # two, merging two filters, and WHERE/HAVING placement have to get right
            a, b, c = self.cond(sc, 1), self.cond(sc, 1), self.cond(sc, 1)
            dis = ["bin", "||", b, c]
            cond = ["bin", "&&", a, dis] if r.random() < 0.5 else ["bin", "&&", dis, a]
        return {"t": "filter", "cond": cond}, nsc

    def t_sort(self, sc, want_total=True):
        r = self.rng
        refs = [c for c in sc.referable() if c.ty != "bool"]
        if not refs:
            return None
        keys = []
        n = r.randint(1, min(3, len(refs)))
        for c in r.sample(refs, n):
            if r.random() < 0.2 and c.ty in ("int", "float"):
                e = ["bin", r.choice(["+", "*"]), self.ref(sc, c), ["lit", r.choice([1, 2, -1])]]
            else:
                e = self.ref(sc, c)
            keys.append([r.random() < 0.35, e])
        if want_total:
            # make ties rare: append remaining columns (unique first)
            rest = [c for c in refs if not any(k[1][0] == "col" and k[1][2] == c.name and k[1][1] == c.qual for k in keys)]
            rest.sort(key=lambda c: not c.uniq)
            for c in rest[:r.randint(1, 4)]:
                keys.append([r.random() < 0.3, self.ref(sc, c)])
        nsc = Scope(sc.cols, sc.nwild, dedupe=False)
        nsc.ordered = True
        return {"t": "sort", "keys": keys}, nsc

    def t_take(self, sc):
        r = self.rng
        c = r.random()
        if c < 0.5:
            t = {"t": "take", "lo": None, "hi": r.randint(1, 6), "plain": True}
        elif c < 0.85:
            lo = r.randint(1, 4)
            t = {"t": "take", "lo": lo, "hi": lo + r.randint(0, 4)}
        elif c < 0.93:
            t = {"t": "take", "lo": None, "hi": r.randint(1, 5)}
        else:
            t = {"t": "take", "lo": r.randint(1, 3), "hi": None}
        nsc = Scope(sc.cols, sc.nwild, dedupe=False)
        nsc.ordered = sc.ordered
        return t, nsc

    def t_join(self, sc):
        r = self.rng
        if r.random() < self.p["join_pipe"]:
            sub = Gen(r, dict(self.p, max_len=3))
            sub.fresh, sub.alias_n, sub.lets = self.fresh + 100, self.alias_n + 100, self.lets
            pipe, ssc = sub.pipeline(r.randint(1, 3), must_know_frame=True, allow_unnamed=True)
            self.fresh, self.alias_n = sub.fresh - 100 + 100, sub.alias_n
            src, rcols, wild = {"k": "pipe", "pipe": pipe}, [c.clone(wild=False) for c in ssc.cols if c.name], False
            if not rcols:
                return None
        else:
            src, rcols, wild = self.table_source()
        alias = self.new_alias()
        rcols = [c.clone(qual=alias) for c in rcols]
        side = r.choice(["inner", "inner", "left", "left", "right", "full"]) if r.random() < self.p["outer_join"] else "inner"
        both = Scope(list(sc.cols) + rcols, sc.nwild + (1 if wild else 0), dedupe=False)
        # condition: equality on a same-typed pair, optionally AND an extra comparison
        pairs = []
        lrefs = sc.referable()
        for lc in lrefs:
            for rc in rcols:
                if rc.name and lc.ty == rc.ty and lc.ty in ("int", "text"):
                    pairs.append((lc, rc))
        if not pairs:
            return None
        pref = [p for p in pairs if p[0].name == p[1].name and p[0].name in ("id", "k")]
        lc, rc = r.choice(pref) if pref and r.random() < 0.7 else r.choice(pairs)
        lq = lc.qual
        if lq is None and any(c.name == lc.name for c in rcols):
            lq = "this"
        cond = ["bin", "==", ["col", lq, lc.name], ["col", alias, rc.name]]
        t = {"t": "join", "src": src, "alias": alias, "side": side, "cond": cond}
        if lc.name == rc.name and r.random() < 0.4 and sum(1 for c in sc.cols if c.name == lc.name) == 1:
            t["cond_text"] = "==" + pp_ident(lc.name)
        elif r.random() < 0.25:
            extra = ["bin", r.choice(["<", ">=", "!="]), cond[2], cond[3]] if lc.ty == "int" else ["lit", True]
            l2 = [p for p in pairs if p is not (lc, rc)]
            if l2:
                a, b = r.choice(l2)
                aq = a.qual
                if aq is None and any(c.name == a.name for c in rcols):
                    aq = "this"
                extra = ["bin", r.choice(["<", ">=", "!=", "=="]), ["col", aq, a.name], ["col", alias, b.name]]
            t["cond"] = ["bin", "&&", cond, extra]
        for c in both.cols:
            c.uniq = False
        both.ordered = sc.ordered and side in ("inner", "left")
        return t, both

    def t_aggregate(self, sc):
        items, cols = [], []
        for _ in range(self.rng.randint(1, 3)):
            e, ty = self.agg_expr(sc)
            nm = self.new_name("g")
            items.append([nm, e])
            cols.append(GCol(None, nm, ty))
        return {"t": "aggregate", "items": items}, Scope(cols, 0)

    def t_group(self, sc):
        r = self.rng
        refs = [c for c in sc.referable() if c.ty in ("int", "text")]
        if not refs:
            return None
        pref = [c for c in refs if c.name in ("k", "s", "e", "w")]
        nk = 1 if r.random() < 0.7 else 2
        keys = []
        for _ in range(nk):
            c = r.choice(pref) if pref and r.random() < 0.75 else r.choice(refs)
            if not any(c is k for k in keys):
                keys.append(c)
        allc = sc.referable()
        if (sc.nwild == 0 and 1 <= len(sc.cols) <= 4 and len(allc) == len(sc.cols) and all(c.ty in ("int", "text", "float") for c in allc)
                and r.random() < self.p.get("distinct", 0.15)):
            # DISTINCT: every column is a key, so the rows of a partition are identical and `take 1` is determined
            kx = [["col", c.qual, c.name] for c in allc]
            nsc = Scope([c.clone(uniq=False) for c in allc], 0)
            return {"t": "group", "keys": kx, "pipe": [{"t": "take", "lo": None, "hi": 1, "plain": True}]}, nsc
        kexprs = [["col", c.qual, c.name] for c in keys]
        kind = r.random()
        outer = sc
        # inside the group pipeline the key columns are not part of `this`
        sc = Scope([c for c in sc.cols if not any(c is k for k in keys)], sc.nwild)
        if kind < self.p["group_agg"]:
            t, asc = self.t_aggregate(sc)
            cols = [c.clone(uniq=False, wild=False) for c in keys] + asc.cols
            return {"t": "group", "keys": kexprs, "pipe": [t]}, Scope(cols, 0)
        if kind < self.p["group_agg"] + self.p["group_take"]:
            st = self.t_sort(sc, want_total=True)
            if st is None:
                return None
            n = r.randint(1, 2)
            take = {"t": "take", "lo": None, "hi": n, "plain": True} if r.random() < 0.7 else {"t": "take", "lo": 1, "hi": n}
            if r.random() < 0.15:
                take = {"t": "take", "lo": 2, "hi": 3}
            nsc = Scope([c.clone(uniq=False) for c in keys] + [c.clone(uniq=False) for c in sc.cols], outer.nwild)
            return {"t": "group", "keys": kexprs, "pipe": [st[0], take]}, nsc
        # window functions inside the group
        if not self.p.get("group_window", True):
            return None
        w = self.t_window_derive(sc, in_group=True)
        if w is None:
            return None
        pipe, nsc = w
        # result frame: outer frame (keys included) + derived columns
        nsc = Scope([c.clone(uniq=False) for c in keys] + [c.clone(uniq=False) for c in nsc.cols], outer.nwild)
        if pipe[-1]["t"] == "window" and r.random() < 0.3:
            # the other nesting: `window <frame> (group k (sort .. | derive ..))` - the frame reaches into the group
            wt = pipe[-1]
            g = {"t": "group", "keys": kexprs, "pipe": pipe[:-1] + wt["pipe"]}
            return {"t": "window", "frame_src": wt["frame_src"], "frame": wt["frame"], "pipe": [g]}, nsc
        return {"t": "group", "keys": kexprs, "pipe": pipe}, nsc

    def win_expr(self, sc, ordered, frame):
        """A window-capable function call; returns (expr, type)."""
        r = self.rng
        nums = sc.referable("num")
        allc = sc.referable()
        fns = ["sum", "min", "max", "average", "count"]
        if ordered:
            fns += ["lag", "lead", "rank", "rank_dense", "row_number"] * 3 + ["first", "last"]
        elif frame is None:
            fns += ["rank", "rank_dense"]
        fn = r.choice(fns)
        if fn in ("sum", "average", "min", "max"):
            if not nums:
                return ["agg", "count", None], "int"
            c = r.choice(nums)
            return ["agg", fn, self.ref(sc, c)], ("float" if fn == "average" or c.ty == "float" else "int")
        if fn == "count":
            return ["agg", "count", None], "int"
        if fn in ("lag", "lead"):
            c = r.choice(allc)
            return ["win", fn, [r.randint(1, 2), self.ref(sc, c)]], c.ty
        if fn in ("first", "last"):
            c = r.choice(allc)
            return ["win", fn, [self.ref(sc, c)]], c.ty
        if fn in ("rank", "rank_dense") and allc:
            return ["win", fn, [self.ref(sc, r.choice(allc))]], "int"
        return ["win", "row_number", []], "int"

    def gen_frame(self, ordered):
        r = self.rng
        c = r.random()
        if c < 0.3:
            n = r.randint(1, 4)
            return ["rolling", n, None], ("rows", 1 - n, 0)
        if c < 0.45:
            return ["expanding", None, None], ("rows", None, 0)
        kind = "rows" if c < 0.85 else "range"
        lo = r.choice([None, -3, -2, -1, 0, 1])
        hi = r.choice([None, -1, 0, 1, 2, 3])
        if lo is not None and hi is not None and lo > hi:
            lo, hi = hi, lo
        return [kind, lo, hi], (kind, lo, hi)

    def t_distinct(self, sc):
        allc = sc.referable()
        if not (sc.nwild == 0 and 1 <= len(sc.cols) <= 4 and len(allc) == len(sc.cols) and all(c.ty in ("int", "text", "float") for c in allc)):
            return None
        kx = [["col", c.qual, c.name] for c in allc]
        return {"t": "group", "keys": kx, "pipe": [{"t": "take", "lo": None, "hi": 1, "plain": True}]}, Scope([c.clone(uniq=False) for c in allc], 0)

    def t_window_derive(self, sc, in_group=False):
        """[sort?] + derive/select/filter using window functions, optionally inside `window`."""
        r = self.rng
        pipe = []
        cur = sc
        ordered = sc.ordered and not in_group
        if r.random() < 0.75 or in_group and r.random() < 0.6:
            st = self.t_sort(cur, want_total=r.random() < 0.8)
            if st:
                pipe.append(st[0])
                cur = st[1]
                ordered = True
        use_window = r.random() < self.p["window_clause"]
        frame_src = frame = None
        if use_window:
            frame_src, frame = self.gen_frame(ordered)
        items, cols = [], list(cur.cols)
        for _ in range(r.randint(1, 2)):
            e, ty = self.win_expr(cur, ordered, frame)
            if r.random() < 0.15 and ty in ("int", "float"):
                e = ["bin", "+", e, ["lit", 1]]
            nm = self.new_name("w")
            items.append([nm, e])
            cols.append(GCol(None, nm, ty))
        d = {"t": "derive", "items": items}
        nsc = Scope([c.clone(uniq=False) for c in cols], cur.nwild, dedupe=False)
        nsc.ordered = ordered and not in_group
        if use_window:
            pipe.append({"t": "window", "frame_src": frame_src, "frame": list(frame), "pipe": [d]})
        else:
            pipe.append(d)
        return pipe, nsc

    def t_append_let(self, sc):
        """append <let> by its bare name: the top projection is made to match the let's frame (arity and types)."""
        r = self.rng
        cands = [ent for ent in self.lets if 1 <= len(ent[2]) <= 4 and all(c.name and c.ty in ("int", "text", "float") for c in ent[2])]
        r.shuffle(cands)
        for ent in cands:
            picked, used = [], set()
            for lc in ent[2]:
                opts = [c for c in sc.referable(lc.ty) if c.name not in used]
                if not opts:
                    picked = None
                    break
                same = [c for c in opts if c.name == lc.name]
                c = r.choice(same) if same and r.random() < 0.6 else r.choice(opts)
                picked.append(c)
                used.add(c.name)
            if not picked:
                continue
            sel = {"t": "select", "items": [[None, self.ref(sc, c)] for c in picked]}
            nsc = Scope([GCol(None, c.name, c.ty) for c in picked], 0)
            return [sel, {"t": "append", "src": {"k": "let", "name": ent[0]}}], nsc
        return None

    def t_append(self, sc):
        r = self.rng
        if self.lets and r.random() < self.p.get("append_let", 0.0):
            res = self.t_append_let(sc)
            if res:
                return res
        refs = [c for c in sc.referable() if c.ty in ("int", "text")]
        if not refs:
            return None
        picked = r.sample(refs, r.randint(1, min(3, len(refs))))
        sel = {"t": "select", "items": [[None, self.ref(sc, c)] for c in picked]}
        names = []
        for c in picked:
            if c.name in names:
                return None
            names.append(c.name)
        # sometimes one top column is an unnamed computed expression: the result column then takes the
        # name of the bottom relation's column at that position (if that one has a name)
        unnamed_at = None
        if r.random() < 0.25:
            unnamed_at = r.randrange(len(picked))
            c = picked[unnamed_at]
            if c.ty in ("int", "float"):
                sel["items"][unnamed_at] = [None, ["bin", "+", self.ref(sc, c), ["lit", 1]]]
            elif c.ty == "text":
                sel["items"][unnamed_at] = [None, ["bin", "??", self.ref(sc, c), ["lit", "q"]]]
            else:
                unnamed_at = None
        # bottom: same arity and types from another source
        src, cols, wild = self.table_source()
        alias = self.new_alias()
        bsc = Scope([c.clone(qual=alias) for c in cols], 1 if wild else 0)
        bitems = []
        out_names = []
        for i, c in enumerate(picked):
            cands = bsc.referable(c.ty)
            if not cands:
                return None
            if r.random() < 0.6:
                bc = r.choice(cands)
                bitems.append([None, self.ref(bsc, bc)])
                bname = bc.name
            else:
                bname = self.new_name()
                bitems.append([bname, self.expr(bsc, c.ty, 1)])
            out_names.append(bname if i == unnamed_at else c.name)
        if len(set(out_names)) != len(out_names):
            return None
        bottom = [{"t": "from", "src": src, "alias": alias}, {"t": "select", "items": bitems}]
        nsc = Scope([GCol(None, n, c.ty) for n, c in zip(out_names, picked)], 0)
        return [sel, {"t": "append", "src": {"k": "pipe", "pipe": bottom}}], nsc

    # -- pipelines
    def pipeline(self, n, must_know_frame=False, forced=None, allow_unnamed=False):
        """forced: list of transform kinds to generate in this order (instead of weighted choice);
        the pipeline position after each forced kind is recorded in self.forced_at."""
        r = self.rng
        t, sc = self.t_from()
        pipe = [t]
        self.cuts = []
        self.forced_at = []
        w = self.p["weights"]
        kinds = list(w.keys())
        tries = 0
        forced = list(forced) if forced else None
        while (forced or (forced is None and len(pipe) - 1 < n)) and tries < 40:
            tries += 1
            if forced is not None:
                k = forced[0]
                if tries % 6 == 0:
                    forced.pop(0)          # this kind cannot be generated here: skip it
                    continue
            else:
                k = r.choices(kinds, [w[x] for x in kinds])[0]
            if forced is None and k == "take" and not sc.ordered and r.random() < 0.85:
                k = "sort"
            res = getattr(self, "t_" + k)(sc) if k != "window" else self.t_window_derive(sc)
            if res is None:
                continue
            ts, nsc = res
            if isinstance(ts, dict):
                ts = [ts]
            pipe.extend(ts)
            sc = nsc
            if forced is not None:
                forced.pop(0)
                self.forced_at.append(len(pipe))
            elif k == "sort" and r.random() < 0.5:
                tt, sc = self.t_take(sc)
                pipe.append(tt)
            names = [c.name for c in sc.cols]
            if sc.nwild == 0 and None not in names and len(set(names)) == len(names):
                self.cuts.append({"at": len(pipe), "quals": sorted({c.qual for c in sc.cols if c.qual}),
                                  "cols": [[c.name, c.ty] for c in sc.cols]})
        if must_know_frame and sc.nwild > 0 or (must_know_frame and not allow_unnamed and any(c.name is None for c in sc.cols)):
            res = self.t_select(sc)
            if res:
                pipe.append(res[0])
                sc = res[1]
        return pipe, sc

    def program(self):
        r = self.rng
        lets = []
        for _ in range(r.choices([0, 1, 2, 3], self.p["n_lets"])[0]):
            name = self.new_name("l")
            pipe, sc = self.pipeline(r.randint(1, 3), must_know_frame=True)
            if sc.nwild > 0 or any(c.name is None for c in sc.cols):
                continue
            if r.random() < self.p.get("let_end_sort", 0.0):
                st = self.t_sort(sc, want_total=r.random() < 0.8)
                if st:
                    pipe.append(st[0])
                    sc = st[1]
                    if r.random() < 0.3:
                        tt, sc = self.t_take(sc)
                        pipe.append(tt)
            lets.append([name, pipe])
            self.lets.append((name, pipe, [c.clone(qual=None) for c in sc.cols], bool(sc.ordered)))
        main, sc = self.pipeline(r.randint(1, self.p["max_len"]))
        if all(t["t"] in ("from", "select", "derive", "filter") for t in main) and r.random() < self.p.get("case_aliases", 0.25):
            # last step: a projection whose aliases differ only in letter case (PRQL names are case sensitive).
            # Only after from/select/derive/filter, which fit one SELECT: SQLite folds the case of column
            # names, so such aliases must not have to be referred to across a sub-query boundary
            refs = sc.referable()
            if refs:
                base = self.new_name("q")
                items = []
                for i, nm in enumerate([base, base.upper(), base.capitalize()][:r.randint(2, 3)]):
                    c = r.choice(refs)
                    e = self.ref(sc, c) if i == 0 or r.random() < 0.5 else self.expr(sc, c.ty, 1)
                    items.append([nm, e])
                if r.random() < 0.5:
                    c = r.choice(refs)
                    items.insert(r.randint(0, len(items)), [self.new_name(), self.ref(sc, c)])
                if r.random() < 0.6:
                    # a rename whose new name is the source column's own name in another letter case
                    c = r.choice(refs)
                    variant = c.name.upper() if r.random() < 0.5 else c.name.capitalize()
                    if variant != c.name and variant.lower() not in {n.lower() for n, _ in items if n}:
                        items.insert(r.randint(0, len(items)), [variant, self.ref(sc, c)])
                        if r.random() < 0.4:
                            items.append([None, self.ref(sc, c)])       # ... next to the column itself
                main.append({"t": "select", "items": items})
        return {"lets": lets, "main": main, "cuts": self.cuts}


DEFAULT_PROFILE = {
    "max_depth": 2, "max_len": 7, "alias": 0.5, "bare_ref": 0.35, "use_let": 0.25, "use_lit": 0.08,
    "join_pipe": 0.2, "outer_join": 0.4, "group_agg": 0.6, "group_take": 0.25, "window_clause": 0.5,
    "n_lets": [0.5, 0.3, 0.15, 0.05], "unnamed": 0.15,
    "weights": {"select": 2.0, "derive": 2.5, "filter": 2.5, "sort": 2.0, "take": 1.5, "join": 1.5,
                "aggregate": 0.7, "group": 1.5, "append": 0.4, "window": 0.0, "exclude": 0.4},
}

PROFILES = {
    "core": {"group_window": False},
    "sort": {"group_window": False, "weights": {"select": 2.0, "derive": 1.5, "filter": 2.0, "sort": 3.5, "take": 3.0, "join": 1.5,
                         "aggregate": 0.3, "group": 0.8, "append": 0.1, "window": 0.0}},
    "window": {"weights": {"select": 1.0, "derive": 1.0, "filter": 1.5, "sort": 1.5, "take": 0.5, "join": 0.6,
                           "aggregate": 0.1, "group": 1.5, "append": 0.0, "window": 4.0},
               "group_agg": 0.2, "group_take": 0.1, "max_len": 5},
    "boundary": {"weights": {"select": 1.0, "derive": 1.5, "filter": 1.5, "sort": 1.5, "take": 1.0, "join": 1.0,
                             "aggregate": 0.3, "group": 1.0, "append": 0.0, "window": 1.5},
                 "group_agg": 0.4, "group_take": 0.4, "n_lets": [1.0, 0, 0, 0], "use_let": 0.0},
    # several readers of one let: a (often sorted) let-table read in FROM position by other lets and by the main
    # pipeline, joined, and appended by its bare name
    "shared": {"use_let": 0.85, "use_lit": 0.0, "n_lets": [0.0, 0.25, 0.45, 0.3], "let_end_sort": 0.6, "append_let": 0.6, "join_pipe": 0.3,
               "max_len": 5, "group_window": False,
               "weights": {"select": 1.5, "derive": 1.0, "filter": 1.5, "sort": 1.0, "take": 2.5, "join": 3.0,
                           "aggregate": 0.3, "group": 0.8, "append": 1.5, "window": 0.0}},
    "project": {"weights": {"select": 4.0, "derive": 2.5, "filter": 1.0, "sort": 1.5, "take": 1.0, "join": 2.0,
                            "aggregate": 0.5, "group": 1.5, "append": 0.5, "window": 0.0, "exclude": 2.0}},
}


def random_program(rng, profile="core"):
    if profile == "boundary":
        return boundary_program(rng)
    if profile == "boundary_nowin":
        return boundary_program(rng, windows=False)
    if profile == "shared":
        return shared_program(rng)
    g = Gen(rng, PROFILES.get(profile, {}))
    return g.program()


def let_refs(prog):
    """name -> number of places (from / join / append, in lets and in the main pipeline) that read the let."""
    n = {}

    def walk(pipe):
        for t in pipe:
            s = t.get("src")
            if s:
                if s["k"] == "let":
                    n[s["name"]] = n.get(s["name"], 0) + 1
                elif s["k"] == "pipe":
                    walk(s["pipe"])
            if t["t"] in ("group", "window"):
                walk(t["pipe"])
    for _, p in prog.get("lets", []):
        walk(p)
    walk(prog["main"])
    return n


def shared_program(rng):
    """A program in which some let-table has at least two readers."""
    prog = None
    for _ in range(8):
        g = Gen(rng, PROFILES["shared"])
        prog = g.program()
        if max(let_refs(prog).values() or [0]) >= 2:
            break
    return prog


BOUNDARY_END = ["take", "sort", "take", "aggregate", "group", "join", "derive", "filter", "window", "select", "distinct", "distinct"]
BOUNDARY_START = ["window", "window", "group", "derive", "filter", "sort", "take", "aggregate", "join", "join", "select", "distinct"]


def boundary_program(rng, windows=True):
    """A program built around one pipeline boundary: from | select (frame known) | 0-2 random
    transforms | END | START | 0-1 random transforms, for every pairing of the kind that ends a
    prefix with the kind that starts the suffix. prog["boundary_at"] is the position between them."""
    prof = PROFILES["boundary"]
    if not windows:
        prof = dict(prof, group_window=False, weights=dict(prof["weights"], window=0.0))
    g = Gen(rng, prof)
    w = g.p["weights"]
    kinds = [k for k in w if w[k] > 0 and (windows or k != "window")]
    pre = [rng.choices(kinds, [w[k] for k in kinds])[0] for _ in range(rng.randint(0, 2))]
    end, start = rng.choice([k for k in BOUNDARY_END if windows or k != "window"]), rng.choice([k for k in BOUNDARY_START if windows or k != "window"])
    if end == "take":
        pre.append("sort")
    post = [rng.choices(kinds, [w[k] for k in kinds])[0] for _ in range(rng.randint(0, 1))]
    if start == "join" and rng.random() < 0.5:
        post = ["select"]
    forced = ["select"] + pre + [end, start] + post
    main, sc = g.pipeline(0, forced=forced)
    at = None
    # position after END = forced_at entry number len(["select"]+pre+[end]) if nothing was skipped
    if len(g.forced_at) == len(forced):
        at = g.forced_at[len(pre) + 1]
    return {"lets": [], "main": main, "cuts": g.cuts, "boundary_at": at, "boundary": [end, start]}


def random_program_text(rng, profile="core"):
    return pp_program(random_program(rng, profile))


def kinds_of(prog):
    """Flat sequence of transform kinds of the main pipeline (nested pipelines in brackets)."""
    def walk(pipe):
        out = []
        for t in pipe:
            k = t["t"]
            if k == "group":
                out.append("group(" + ",".join(walk(t["pipe"])) + ")")
            elif k == "window":
                out.append("window(" + ",".join(walk(t["pipe"])) + ")")
            elif k == "join":
                out.append("join:" + t.get("side", "inner") + ("(pipe)" if t["src"]["k"] == "pipe" else ""))
            elif k == "from":
                out.append("from:" + t["src"]["k"])
            else:
                out.append(k)
        return out
    return walk(prog["main"])
