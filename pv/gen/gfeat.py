"""G-feat: well-formed but unusual programs — every lexable form of the literal kinds, boundary
values of ranges / takes / window frames, empty tuples, std functions with edge arguments.
All are over the generator's schema (t1(id,k,a,b,s) t2(id,k,a,c,s) t3(k,d,e)), so the sqlite /
generic output can also be prepared on the pinned SQLite.  Deterministic (no rng): the list is
a systematic product, the checks shard it."""

I64MAX = "9223372036854775807"


def time_forms():
    out = []
    for h in ("10", "08", "00", "23"):
        for ms_ in ("", ":30", ":30:15", ":59:59"):
            for frac in ("", ".5", ".123", ".123456"):
                for tz in ("", "Z", "+01:00", "-0800", "+00:00", "-12:30"):
                    if h != "10" and (frac not in ("", ".123") or tz not in ("", "Z", "-0800")):
                        continue
                    out.append(h + ms_ + frac + tz)
    return out


DATES = ["2020-01-01", "0001-01-01", "9999-12-31", "2020-02-30", "2020-13-45", "1970-01-01", "2024-02-29"]
NUMBERS = ["0", "1", "-1", I64MAX, "-" + I64MAX, "2147483648", "4294967296", "3000000000", "1_000_000", "0x7fffffffffffffff", "0xff", "0b1010", "0o777",
           "1.0", "0.5", "1e10", "1E10", "1.5e-7", "1e308", "1e-320", "123456789.123456789", "1_0.5_0", "00012", "5e0", "1e+3", "0.0", "-0.0"]
UNITS = ["microseconds", "milliseconds", "seconds", "minutes", "hours", "days", "weeks", "months", "years"]
INTERVAL_N = ["0", "1", "3", "1_000", I64MAX]
TAKES = ["take 0", "take 1", "take 1..1", "take 1..0", "take 5..1", "take ..0", "take ..1", "take 1..", "take 2..", "take " + I64MAX, "take 2.." + I64MAX,
         "take " + I64MAX + "..", "take 3000000000", "take 2..3000000000", "take 3 | take 2..", "take 2.. | take 3", "take 2.. | take 2.. | take 5", "take " + I64MAX + " | take 2..",
         "take 2.. | take " + I64MAX, "take 3..5 | take 2.." + I64MAX, "take 1..1 | take 1..1", "take 0 | take 0", "sort id | take 2..4 | sort {-id} | take 1..2"]
FRAMES = ["rows:0..0", "rows:-1..1", "rows:..0", "rows:0..", "rows:..", "rows:1..2", "rows:-2..-1", "rows:5..1", "rows:-" + I64MAX + "..0", "range:-1..1", "range:..0", "range:0..",
          "rolling:1", "rolling:2", "rolling:0", "rolling:" + I64MAX, "expanding:true", "expanding:false"]
MISC = [
    "from t1 | select {}", "from t1 | derive {}", "from t1 | aggregate {}", "from t1 | group {} (aggregate {n = count this})", "from t1 | sort {}",
    "from t1 | group {k} (take 1)", "from t1 | group {k} (aggregate {})", "from t1 | select {id} | select {}", "from [{x = 1}] | select {}",
    "from [] | select {x = 1}", "from [{x = 1}] | filter false", "from t1 | filter true | filter false | filter null",
    "from t1 | derive {x = (a | in 5..1), y = (a | in 1..), z = (a | in ..5), w = (a | in 1..1)}",
    "from t1 | derive {x = math.round 0 b, y = math.round (-1) b, z = math.round 20 b, w = math.pow 0 0}",
    "from t1 | derive {x = text.extract 0 0 s, y = text.extract (-1) 5 s, z = text.extract 1 0 s, w = text.replace \"\" \"\" s}",
    "from t1 | derive {x = text.contains \"\" s, y = text.starts_with \"\" s, z = text.ends_with \"\" s, l = text.length \"\"}",
    "from t1 | derive {x = \"\", y = '', z = f\"\", w = \"\"\"\"\"\"}", "from t1 | derive {x = s\"1\", y = s\"{a}\", z = f\"{a}{b}\", w = f\"{{}}\"}",
    "from t1 | derive {x = case []}", "from t1 | derive {x = case [true => 1]}", "from t1 | derive {x = case [false => 1]}", "from t1 | derive {x = case [a == null => null, true => null]}",
    "from t1 | derive {x = null ?? null, y = null == null, z = null != null, w = -null, v = !null}",
    "from t1 | derive {x = a // 0, y = a % 0, z = a / 0, w = 0 ** 0, v = a ** -1, u = (-a) ** 0.5}",
    "from t1 | derive {x = (a | as int), y = (a | as text), z = (s | as int), w = (b | as bool), v = (null | as int)}",
    "from t1 | derive {x = date.to_text \"\" @2020-01-01, y = date.to_text \"%Y\" @2020-01-01T10:00, z = date.to_text \"%%\" @10:00}",
    "from t1 | derive {x = @2020-01-01 + 3days, y = @2020-01-01 - 1years, z = @10:00 + 1hours, w = @2020-01-01T10:00 + 0seconds}",
    "from t1 | derive {x = @2020-01-01 - @2019-01-01, y = @2020-01-01 == @2020-01-01, z = @10:00 < @11}",
    "from t1 | loop (filter id < 0 | select {id = id + 1, k, a, b, s})", "from [{n = 1}] | loop (filter n < 1 | select {n = n + 1})",
    "from t1 | join t2 true", "from t1 | join t2 false", "from t1 | join side:full t2 (t1.id == t2.id && true)", "from t1 | join t2 (==id) | join t3 (t1.k == t3.k) | take 0",
    "from t1 | append t1 | append t1", "from t1 | select {id} | append (from t2 | select {id}) | remove (from t3 | select {id = k})",
    "from t1 | select {id} | intersect (from t1 | select {id}) | intersect (from t1 | select {id})",
    "from t1 | sort {+id, -k, a} | sort {-id}", "from t1 | sort {id, id, -id}", "from t1 | sort (a + b) | sort {-(a * 2)} | take 1",
    "from t1 | aggregate {x = count this, y = count s, z = sum null, w = average null, v = min null}",
    "from t1 | aggregate {x = concat_array a, y = all (a > 0), z = any (a > 0), w = stddev a, v = every (a > 0)}",
    "from t1 | group {k, k} (aggregate {n = count this})", "from t1 | group {x = k + 1} (aggregate {n = count this})", "from t1 | group k (group a (aggregate {n = count this}))",
    "from t1 | derive {x = " + "(" * 60 + "a" + ")" * 60 + "}",
    "from t1 | derive {x = " + " + ".join(["a"] * 300) + "}", "from t1 | derive {x = \"" + "y" * 20000 + "\"}", "from t1 | select {" + ", ".join("c%d = a + %d" % (i, i) for i in range(300)) + "}",
    "from t1\n" + "".join("derive {d%d = a + %d}\n" % (i, i) for i in range(150)),
    "let f = x -> x\nfrom t1 | derive {y = f a}", "let f = x y:1 -> x + y\nfrom t1 | derive {p = f a, q = f y:0 a, r = (a | f y:2)}", "let t = (from t1)\nlet u = (from t)\nlet v = (from u)\nfrom v",
    "prql version:\"0\"\nfrom t1", "prql target:sql.generic\nfrom t1", "# only a comment\nfrom t1 # trailing", "from t1\n\n\n\n", "from `t1` | select {`id`, `t1`.`k`}",
    "from t1 | select {x = this.id, y = t1.id, z = this.t1.id}", "from a = t1 | join b = t1 (a.id == b.id) | select {a.id, b.id} | select {x = id}",
    "from t1 | window rows:-1..1 (sort id | derive {x = sum a}) | window (derive {y = sum a})", "from t1 | derive {r = row_number this, k2 = rank k, d = rank_dense k}",
    "from t1 | derive {x = lag 0 a, y = lead 0 a, z = lag " + I64MAX + " a, w = lag (-1) a}", "from t1 | sort id | derive {f = first a, l = last a}",
]


def _q(s):
    return '"' + s.replace("\\", "\\\\").replace('"', '\\"') + '"'


# relation literals read from text: JSON values of every kind (integers at the edges of i64 / u64, floats,
# exponents, booleans, nulls, strings with escapes, nested values), both JSON layouts, CSV edge cases
JSON_VALUES = ["0", "-1", "9223372036854775807", "-9223372036854775808", "9223372036854775808", "18446744073709551615", "18446744073709551616",
               "1.5", "-0.0", "1e3", "1E-7", "1e308", "1e400", "true", "false", "null", '"x"', '""', '"a\\"b"', '"\\u00e9"', "[1, 2]", '{"z": 1}']
FROM_TEXT = []
for _v in JSON_VALUES:
    FROM_TEXT.append("from_text format:json " + _q('[{"id": 1, "v": %s}]' % _v))
    FROM_TEXT.append("from_text format:json " + _q('{"columns": ["id", "v"], "data": [[1, %s]]}' % _v) + " | select {v}")
FROM_TEXT += [
    "from_text format:json " + _q("[]"), "from_text format:json " + _q("[{}]"), "from_text format:json " + _q('[{"a": 1}, {"b": 2}]'),
    "from_text format:json " + _q('{"columns": [], "data": []}'), "from_text format:json " + _q('{"columns": ["a"], "data": [[1], [2, 3]]}'),
    "from_text format:csv " + _q("a,b\n1,2\n"), "from_text format:csv " + _q("a,b\n"), "from_text format:csv " + _q(""), "from_text format:csv " + _q("a\n\n1\n"),
    "from_text format:csv " + _q("a,b\n1\n"), "from_text format:csv " + _q("a,a\n1,2\n"), "from_text format:csv " + _q("a,b\n\"x,y\",2\n"),
    "from_text " + _q("a,b\n9223372036854775808,1e400\n"), "from_text format:csv " + _q("é,b\n1,2\n") + " | select {b}",
]

# interpolated strings whose literal text carries backslashes, quotes, braces and escapes
INTERP = [
    's"REGEXP_REPLACE({s}, \'\\\\d+\', \'\')"',
    'f"a\\\\b{s}"',
    's"{s} LIKE \'10\\\\%\' ESCAPE \'\\\\\'"',
    'f"C:\\\\dir\\\\{s}"',
    'f"{{literal}} {s}"',
    's"a\\"b{s}"',
    'f"tab\\there{s}"',
    'f"nl\\n{s}"',
    "f'single {s} \"double\"'",
    'f"{s}{s}"',
    'f"x{s}y{a}z"',
    's"COALESCE({a}, {b:0})"',
    'f"\\u{e9}{s}"',
    's"{s} IN (\'a\', \'b\')"',
    'f"{{}}"',
    's"1"',
    'f"100%{s}"',
]
for _t in INTERP:
    FROM_TEXT.append("from t1 | derive {x = %s} | select {id, x}" % _t)
    FROM_TEXT.append(("from t1 | filter (%s) != null | select {id}" if _t.startswith("f") else "from t1 | sort {%s} | select {id}") % _t)

# string escapes at their edges: \u{..} with 0..10 hex digits, surrogates, the largest code point, and the simple escapes
ESCAPES = ['"\\u{}"', '"\\u{4}"', '"\\u{41}"', '"\\u{041}"', '"\\u{0041}"', '"\\u{00041}"', '"\\u{000041}"', '"\\u{0000041}"', '"\\u{00000041}"', '"\\u{0001F600}"',
           '"\\u{1F600}"', '"\\u{10FFFF}"', '"\\u{110000}"', '"\\u{D800}"', '"\\u{DFFF}"', '"\\u{zz}"', '"\\u{41"', '"\\u41"', '"\\x41"', '"\\x4"', '"\\b\\f\\n\\r\\t\\/\\\\"',
           '"\\q"', '"a\\\nb"', "'\\u{41}'", 'f"\\u{0000041}{s}"', 's"\\u{0000041}"']
for _t in ESCAPES:
    FROM_TEXT.append("from t1 | derive {x = %s} | select {id, x}" % _t)


# s-strings used as relations: the compiler inspects the text itself (it must start with SELECT, the prefix is cut at a
# fixed length, columns are inferred by parsing it) - multi-byte characters at every early position, texts shorter
# than the prefix, other casings / leading blanks / other statement kinds, in every place a relation can stand
def sstring_relations():
    texts = []
    base = "SELECT * FROM t1"
    for ch in ("\u00e9", "\u00a0", "\u201c", "\u4e2d", "\U0001f600"):
        for pos in range(0, 11):
            texts.append(base[:pos] + ch + base[pos:])
    texts += ["SELECT * FROM t1", "select * from t1", "  SELECT 1 AS a", "\nSELECT 1 AS a", "SELECTED", "SELECT", "SELEC", "S", "", " ", "(SELECT 1 AS a)",
              "WITH x AS (SELECT 1 AS a) SELECT * FROM x", "VALUES (1)", "\u65e5\u672c\u8a9e\u306e\u8868", "\u00e9\u00e9\u00e9\u00e9\u00e9\u00e9\u00e9", "\U0001f600\U0001f600",
              "SELECT [a], [b] FROM t1", "SELECT `a`, `b` FROM t1", "SELECT \\\"a\\\" FROM t1", "SELECT a AS \u00e9 FROM t1", "SELECT a, FROM", "SELECT 'x' AS \u4e2d\u6587",
              "SELECT * FROM t1 -- c", "SELECT /* \u00e9 */ 1 AS a"]
    out = []
    for t in texts:
        out.append('from s"%s"' % t)
        out.append('from t1 | select {id} | append s"%s"' % t)
        out.append('let x = s"%s"\nfrom x | take 1' % t)
        out.append('from t1 | join side:left y = s"%s" (t1.id == y.id) | select {t1.id}' % t)
    out.append('from s"SELECT {1 + 1} AS a"')
    out.append('from s"SELECT\u00a0{1} AS a"')
    out.append('from s"{1}"')
    return out


def programs():
    """-> list of (tag, source)"""
    out = []
    for m in sstring_relations():
        out.append(("sstring_relation", m))
    for t in time_forms():
        out.append(("time", "from t1 | derive {x = @%s}" % t))
    for t in time_forms()[:40]:
        out.append(("time_filter", "from t1 | filter @%s < @23:59 | select {id}" % t))
    for d in DATES:
        out.append(("date", "from t1 | derive {x = @%s}" % d))
        out.append(("date_lit_rel", "from [{x = @%s}]" % d))
        for t in time_forms()[:72:3]:
            out.append(("timestamp", "from t1 | derive {x = @%sT%s}" % (d, t)))
    for n in NUMBERS:
        out.append(("number", "from t1 | derive {x = %s}" % n))
        out.append(("number_cmp", "from t1 | filter a < %s | select {id}" % n))
        out.append(("number_rel", "from [{x = %s}]" % n))
    for n in INTERVAL_N:
        for u in UNITS:
            out.append(("interval", "from t1 | derive {x = %s%s}" % (n, u)))
            out.append(("interval_add", "from t1 | derive {x = @2020-01-01 + %s%s}" % (n, u)))
    for t in TAKES:
        out.append(("take", "from t1 | sort id | " + t))
        out.append(("take_group", "from t1 | group k (sort id | %s)" % t))
    for f in FRAMES:
        out.append(("frame", "from t1 | window %s (sort id | derive {x = sum a, y = lag 1 a})" % f))
        out.append(("frame_group", "from t1 | group k (window %s (sort id | derive {x = count this}))" % f))
    for m in MISC:
        out.append(("misc", m))
    for m in FROM_TEXT:
        out.append(("from_text", m))
    return out
