"""G-text: token/character-level generator and mutator of PRQL sources."""
import re

TOK = re.compile(r"[A-Za-z_][A-Za-z0-9_]*|\d+(?:\.\d+)?|\s+|==|!=|>=|<=|~=|&&|\|\||\?\?|//|\*\*|->|=>|\.\.|.", re.S)
POOL = ["(", ")", "{", "}", "[", "]", ",", "|", "=", "==", "!=", "->", "=>", "..", "+", "-", "*", "/", "//", "**", "%", "&&", "||", "??",
        "~=", "!", "@", ":", ".", "\"", "'", "`", "#", "\\", "\n", " ", "$", "f\"", "s\"", "r\"", "\"\"\"", "null", "true", "false",
        "let", "func", "module", "type", "case", "from", "select", "derive", "filter", "group", "aggregate", "join", "take", "sort",
        "window", "append", "loop", "into", "prql", "this", "that", "std", "internal", "import", "enum", "0", "1", "9223372036854775807",
        "1e400", "0x", "0b2", "1..", "@2020-13-45", "@25:61", "5days", "é", "ñ", "中", "\U0001f600", "́", "​", "\t", "\r", "\x0b",
        "sum", "count", "average", "min", "max", "rank", "lag", "row_number", "first", "in", "as", "side:left", "rolling:3", "rows:-1..1",
        "tuple_every", "_eq", "_is_null", "std.sum", "db.t", "default_db.t", "$1", "*", "!{", "t.*", "x.y.z", "_expr_0", "table_0"]


def tokens(src):
    return TOK.findall(src)


def mutate(rng, src, n_edits=1):
    toks = tokens(src)
    if not toks:
        toks = [""]
    for _ in range(n_edits):
        k = rng.random()
        i = rng.randrange(len(toks))
        if k < 0.2:
            del toks[i]
            if not toks:
                toks = [""]
        elif k < 0.35:
            toks.insert(i, toks[i])
        elif k < 0.5 and len(toks) > 1:
            j = min(len(toks) - 1, i + 1)
            toks[i], toks[j] = toks[j], toks[i]
        elif k < 0.8:
            toks[i] = rng.choice(POOL)
        elif k < 0.9:
            toks.insert(i, rng.choice(POOL))
        elif k < 0.95:
            toks = toks[:i]
            if not toks:
                toks = [""]
        else:
            # character-level flip inside the token
            t = toks[i]
            if t:
                p = rng.randrange(len(t))
                toks[i] = t[:p] + rng.choice(["\"", "'", "`", "{", "(", "\\", "é", "0", " "]) + t[p + 1:]
    return "".join(toks)


def random_source(rng, n):
    return "".join(rng.choice(POOL) + (" " if rng.random() < 0.5 else "") for _ in range(n))


# ---- depth / size families: name -> function n -> source
def _chain(op):
    return lambda n: "from t | select {x = " + (" %s " % op).join(["a"] * (n + 1)) + "}"


FAMILIES = {
    "nested_parens": lambda n: "from t | select {x = " + "(" * n + "a" + ")" * n + "}",
    "nested_tuples": lambda n: "from t | select {x = " + "{" * n + "a" + "}" * n + "}",
    "nested_arrays": lambda n: "let x = " + "[" * n + "1" + "]" * n + "\nfrom t",
    "nested_case": lambda n: "from t | select {x = " + "case [a => " * n + "1" + "]" * n + "}",
    "nested_calls": lambda n: "from t | select {x = " + "(math.abs " * n + "a" + ")" * n + "}",
    "nested_unary": lambda n: "from t | select {x = " + "-(" * n + "a" + ")" * n + "}",
    "nested_fstring": lambda n: "from t | select {x = " + "f\"{" * min(n, 200) + "a" + "}\"" * min(n, 200) + "}",
    "nested_pipeline": lambda n: "from t | select {x = " + "(" * n + "a" + " | math.abs)" * n + "}",
    "nested_group": lambda n: "from t | " + "group a (" * n + "take 1" + ")" * n,
    "chain_add": _chain("+"), "chain_mul": _chain("*"), "chain_and": _chain("&&"), "chain_or": _chain("||"),
    "chain_eq": _chain("=="), "chain_coalesce": _chain("??"), "chain_pow": _chain("**"), "chain_sub": _chain("-"), "chain_div": _chain("/"),
    "long_pipeline_derive": lambda n: "from t" + "".join(" | derive {c%d = a + %d}" % (i, i) for i in range(n)),
    "long_pipeline_filter": lambda n: "from t" + "".join(" | filter a > %d" % i for i in range(n)),
    "long_pipeline_sort_take": lambda n: "from t" + "".join(" | sort a | take %d" % (n - i + 1) for i in range(n)),
    "long_pipeline_select": lambda n: "from t | select {a, b}" + " | select {a, b}" * n,
    "long_pipeline_join": lambda n: "from t" + "".join(" | join u%d (==id)" % i for i in range(min(n, 512))),
    "long_pipeline_group": lambda n: "from t | select {a, b}" + "".join(" | group a (aggregate {b = sum b}) " for i in range(n)),
    "many_lets": lambda n: "".join("let x%d = (from t | select {a})\n" % i for i in range(n)) + "from x0",
    "let_chain": lambda n: "let x0 = (from t | select {a})\n" + "".join("let x%d = (from x%d | derive {b%d = a})\n" % (i + 1, i, i) for i in range(min(n, 1024))) + "from x%d" % min(n, 1024),
    "many_columns": lambda n: "from t | select {" + ", ".join("c%d" % i for i in range(n)) + "}",
    "many_derives": lambda n: "from t | derive {" + ", ".join("c%d = a + %d" % (i, i) for i in range(n)) + "}",
    "many_funcs": lambda n: "".join("let f%d = x -> x + %d\n" % (i, i) for i in range(n)) + "from t | derive {y = f0 a}",
    "func_chain": lambda n: "let f0 = x -> x + 1\n" + "".join("let f%d = x -> f%d x\n" % (i + 1, i) for i in range(min(n, 1024))) + "from t | derive {y = f%d a}" % min(n, 1024),
    "long_digits": lambda n: "from t | select {x = " + "1" * n + "}",
    "long_float": lambda n: "from t | select {x = 0." + "1" * n + "}",
    "long_string": lambda n: "from t | select {x = \"" + "a'" * n + "\"}",
    "long_ident": lambda n: "from t | select {" + "a" * n + "}",
    "many_quotes": lambda n: "from t | select {x = " + "\"" * n + "}",
    "long_comment": lambda n: "from t # " + "x" * n + "\n| select {a}",
    "many_newlines": lambda n: "from t" + "\n" * n + "select {a}",
    "many_literal_rows": lambda n: "from [" + ", ".join("{a = %d}" % i for i in range(n)) + "]",
    "many_case_arms": lambda n: "from t | select {x = case [" + ", ".join("a == %d => %d" % (i, i) for i in range(n)) + "]}",
    "many_sort_keys": lambda n: "from t | sort {" + ", ".join("c%d" % i for i in range(n)) + "}",
    "many_appends": lambda n: "from t" + "".join(" | append u%d" % i for i in range(min(n, 512))),
    "unclosed_parens": lambda n: "from t | select {x = " + "(" * n,
    "unclosed_braces": lambda n: "from t | select " + "{" * n,
    "many_windows": lambda n: "from t | sort a" + "".join(" | derive {w%d = lag %d a}" % (i, i + 1) for i in range(min(n, 512))),
}
