"""G-nest — the (syntactic slot x expression kind) matrix.

Every expression kind of the PRQL grammar is placed, fully parenthesised, into every
slot where the grammar takes an expression.  The parenthesised source always has the
intended tree; a printer (the formatter, pl_to_prql) has to decide for each pair whether
the parentheses may be dropped.  Two-level pairs are enumerated exhaustively; three-level
chains (slot(kind-with-slot(kind))) are enumerated too because a printer's decision may
leak through the middle node.
"""

# expression kinds: (name, text).  Texts are not parenthesised.
KINDS = [
    ("ident", "a"),
    ("ident_path", "t.a"),
    ("int", "1"),
    ("neg_int", "-1"),
    ("float", "1.5"),
    ("neg_float", "-1.5"),
    ("string", '"s"'),
    ("null", "null"),
    ("bool", "true"),
    ("date", "@2020-01-01"),
    ("duration", "2days"),
    ("param", "$1"),
    ("neg", "-a"),
    ("not", "!a"),
    ("pos", "+a"),
    ("eq_unary", "==a"),
    ("mul", "a * b"),
    ("div", "a / b"),
    ("divint", "a // b"),
    ("mod", "a % b"),
    ("add", "a + b"),
    ("sub", "a - b"),
    ("pow", "a ** b"),
    ("eq", "a == b"),
    ("ne", "a != b"),
    ("regex", "a ~= b"),
    ("gt", "a > b"),
    ("le", "a <= b"),
    ("coalesce", "a ?? b"),
    ("and", "a && b"),
    ("or", "a || b"),
    ("range", "a..b"),
    ("range_open_start", "..b"),
    ("range_open_end", "a.."),
    ("range_lit", "1..5"),
    ("call1", "f a"),
    ("call2", "f a b"),
    ("call_named", "f n:1 a"),
    ("pipe", "a | f"),
    ("pipe2", "a | f 1 | g"),
    ("case", "case [a => 1, true => 2]"),
    ("tuple", "{a, b}"),
    ("tuple_alias", "{x = a}"),
    ("array", "[a, b]"),
    ("sstring", 's"{a}"'),
    ("fstring", 'f"{a}"'),
    ("lambda", "func x -> x + 1"),
    ("lambda_named", "func x y:1 -> x + y"),
    ("this", "this"),
    ("wildcard", "t.*"),
]

# slots: (name, template).  %s is replaced by "(" + kind + ")".
EXPR = "from t | derive {z = %s}"
SLOTS = [("derive_value", "%s")]
for opname, op in [("mul", "*"), ("div", "/"), ("divint", "//"), ("mod", "%%"), ("add", "+"), ("sub", "-"), ("pow", "**"),
                   ("eq", "=="), ("ne", "!="), ("regex", "~="), ("gt", ">"), ("le", "<="), ("coalesce", "??"),
                   ("and", "&&"), ("or", "||")]:
    SLOTS.append(("bin_%s_left" % opname, "%%s %s b" % op))
    SLOTS.append(("bin_%s_right" % opname, "a %s %%s" % op))
SLOTS += [
    ("neg_operand", "-%s"),
    ("not_operand", "!%s"),
    ("range_start", "%s..b"),
    ("range_end", "a..%s"),
    ("range_only_end", "..%s"),
    ("range_only_start", "%s.."),
    ("call_arg_only", "f %s"),
    ("call_arg_first", "f %s b"),
    ("call_arg_last", "f a %s"),
    ("call_named_arg", "f n:%s a"),
    ("call_callee", "%s a"),
    ("pipe_head", "(%s | f)"),
    ("pipe_stage", "(a | %s)"),
    ("pipe_stage_arg", "(a | f %s)"),
    ("case_cond", "case [%s => 1]"),
    ("case_value", "case [a => %s]"),
    ("case_value_2nd", "case [a => 1, true => %s]"),
    ("tuple_item", "{%s}"),
    ("tuple_item_alias", "{y = %s}"),
    ("tuple_item_2nd", "{a, %s}"),
    ("array_item", "[%s]"),
    ("array_item_2nd", "[a, %s]"),
    ("sstring_interp", 's"F({%s})"'),
    ("fstring_interp", 'f"x{%s}y"'),
    ("lambda_body", "func x -> %s"),
    ("lambda_default", "func x y:%s -> x"),
    ("parens_twice", "(%s)"),
]

# whole-program slots (the expression is not inside `derive {z = ..}`)
PROGRAM_SLOTS = [
    ("filter_arg", "from t | filter %s"),
    ("sort_arg", "from t | sort %s"),
    ("sort_tuple", "from t | sort {%s, a}"),
    ("take_arg", "from t | take %s"),
    ("select_arg", "from t | select %s"),
    ("select_tuple", "from t | select {a, %s}"),
    ("group_by", "from t | group %s (aggregate {n = count this})"),
    ("group_pipeline", "from t | group a %s"),
    ("join_cond", "from t | join u %s"),
    ("join_with", "from t | join %s (==a)"),
    ("window_rows", "from t | window rows:%s (derive {s = sum a})"),
    ("window_expanding", "from t | window expanding:%s (derive {s = sum a})"),
    ("aggregate_item", "from t | aggregate {n = %s}"),
    ("let_value", "let v = %s\nfrom t"),
    ("let_func_body", "let g = x -> %s\nfrom t"),
    ("let_func_default", "let g = x y:%s -> x\nfrom t"),
    ("let_func_default_2nd", "let g = x y:1 k:%s -> x\nfrom t"),
    ("annotation", "@{binding_strength=%s}\nlet g = x -> x\nfrom t"),
    ("from_arg", "from %s"),
    ("main_only", "%s"),
    ("append_arg", "from t | append %s"),
    ("loop_arg", "from t | loop %s"),
    ("into", "from t | derive {y = %s} | into w"),
]

# kinds that themselves have a slot: used as the middle of three-level chains
MIDDLES = [
    ("neg", "-%s"), ("not", "!%s"),
    ("add_l", "%s + c"), ("add_r", "c + %s"), ("sub_r", "c - %s"), ("mul_l", "%s * c"), ("mul_r", "c * %s"), ("div_r", "c / %s"),
    ("pow_l", "%s ** c"), ("pow_r", "c ** %s"), ("eq_r", "c == %s"), ("and_l", "%s && c"), ("or_r", "c || %s"),
    ("coalesce_l", "%s ?? c"), ("coalesce_r", "c ?? %s"),
    ("range_s", "%s..c"), ("range_e", "c..%s"),
    ("call", "g %s"), ("call_named", "g m:%s c"), ("pipe", "%s | g"), ("case_v", "case [c => %s]"),
    ("tuple", "{%s}"), ("alias_tuple", "{q = %s}"), ("array", "[%s]"), ("lambda", "func w -> %s"), ("lambda_def", "func w v:%s -> w"),
    ("fstr", 'f"{%s}"'),
]


def two_level():
    """(label, program) for every slot x kind."""
    out = []
    for sname, st in SLOTS:
        for kname, k in KINDS:
            out.append(("%s<%s" % (sname, kname), EXPR % (st % ("(" + k + ")"))))
    for sname, st in PROGRAM_SLOTS:
        for kname, k in KINDS:
            out.append(("%s<%s" % (sname, kname), st % ("(" + k + ")")))
    return out


def three_level():
    """slot(middle(kind)) — middle and kind both parenthesised in the source."""
    out = []
    inner_kinds = [k for k in KINDS if k[0] in (
        "ident", "neg_int", "neg_float", "neg", "not", "mul", "add", "sub", "pow", "eq", "coalesce", "and", "or", "range", "range_open_end",
        "call1", "call_named", "pipe", "case", "tuple_alias", "lambda", "lambda_named", "fstring")]
    outer = [s for s in SLOTS if s[0] in (
        "derive_value", "bin_add_left", "bin_add_right", "bin_sub_right", "bin_mul_right", "bin_div_right", "bin_pow_left", "bin_pow_right",
        "bin_eq_right", "bin_and_left", "bin_or_right", "bin_coalesce_left", "bin_coalesce_right", "neg_operand", "not_operand",
        "range_start", "range_end", "call_arg_only", "call_arg_last", "call_named_arg", "pipe_head", "pipe_stage_arg", "case_cond",
        "case_value", "tuple_item_alias", "array_item", "fstring_interp", "sstring_interp", "lambda_body", "lambda_default")]
    for sname, st in outer:
        for mname, mt in MIDDLES:
            for kname, k in inner_kinds:
                mid = mt % ("(" + k + ")")
                out.append(("%s<%s<%s" % (sname, mname, kname), EXPR % (st % ("(" + mid + ")"))))
    return out


def programs(level=3):
    out = two_level()
    if level >= 3:
        out += three_level()
    return out


# ---- type expressions -------------------------------------------------------------------
# (text, usable as a bare parameter/return type of a `func` type)
TYPES = [
    ("int", True), ("float", True), ("text", True), ("bool", True), ("date", True), ("time", True), ("timestamp", True),
    ("null", False), ("anytype", True), ("[int]", True), ("[text]", True), ("{a = int}", True), ("{a = int, b = text}", True),
    ("{int, text}", True), ("[{a = int, b = text}]", True), ("int || text", False), ("int || null", False),
    ("{a = int || null}", True), ("[int || text]", True), ("func int -> int", False), ("func int text -> bool", False),
    ("func -> int", False), ("{a = int, ..}", True), ("{..}", True), ("[{..}]", True), ("my.ty", True), ("my_t", True),
    ("relation", True), ("scalar", True), ("{a = {b = int}}", True), ("[[int]]", True), ("1", False), ('"x"', False),
    ("1 || 2", False), ("true || null", False), ("{a = int, b = [text]}", True), ("func {a = int} -> [int]", False),
    ("int || text || bool", False), ("{x = int || text, y = func int -> int}", False),
    # types with a payload-less variant: any array, any function, open tuple with a typed rest
    ("[]", True), ("func", True), ("{a = int, ..int}", True), ("{a = [], b = func}", True), ("[[]]", True), ("{..[]}", True),
]
TYPE_SLOTS = [
    ("type_def", "type my = %s\nfrom t", False),
    ("let_ty", "let v <%s> = 1\nfrom t", False),
    ("param_ty", "let g = func x <%s> -> x\nfrom t", False),
    ("param2_ty", "let g = func x <%s> y <int> -> x\nfrom t", False),
    ("named_param_ty", "let g = func x y <%s>:1 -> x\nfrom t", False),
    ("ret_ty", "let g = func x -> <%s> x\nfrom t", False),
    ("lambda_ty", "from t | derive {z = (func x <%s> -> x)}", False),
    ("generic", "let g = func <T> x <%s> -> x\nfrom t", False),
    ("union_l", "type my = %s || int\nfrom t", True),
    ("union_r", "type my = int || %s\nfrom t", True),
    ("array_of", "type my = [%s]\nfrom t", False),
    ("tuple_of", "type my = {a = %s}\nfrom t", False),
    ("tuple_unnamed", "type my = {%s, int}\nfrom t", False),
    ("func_arg", "type my = func %s -> int\nfrom t", True),
    ("func_ret", "type my = func int -> %s\nfrom t", True),
    ("module_type", "module m {\n  type my = %s\n}\nfrom t", False),
]


def type_programs():
    """Every type expression in every place that takes a type.  Slots whose grammar takes a
    single type term (no bare union / function type) only get terms."""
    out = []
    for sname, st, term_only in TYPE_SLOTS:
        for t, is_term in TYPES:
            if term_only and not is_term:
                continue
            out.append(("%s<%s" % (sname, t), st % t))
    return out


# ---- statements --------------------------------------------------------------------------
STMTS=[("let_scalar","let a = 1"),("let_typed","let a <int> = 1"),("let_func","let f = x -> x + 1"),("let_func_named","let f = x y:2 -> x + y"),("let_func_typed","let f = func x <int> -> <int> x"),
("let_rel","let r = (from t | take 5)"),("let_rel_multi","let r = (\n  from t\n  take 5\n)"),("let_tuple","let c = {a = 1, b = 2}"),("let_array","let c = [1, 2]"),("let_sstr",'let s = s"SELECT 1"'),
("type_def","type ty = int || text"),("module","module m {\n  let x = 1\n}"),("module_empty","module m {\n}"),("module_nested","module m {\n  module n {\n    let y = 1\n  }\n}"),
("import","import m.x"),("import_as","import m.x as z"),("annot_let","@{binding_strength=2}\nlet f = x -> x"),("doc_let","#! doc\nlet a = 1"),("comment_let","# comment\nlet a = 1"),
("main","from t | select {a}"),("main_multi","from t\nselect {a}\ntake 5"),("main_into","from t | into w"),("let_main","let main = (from t)"),("let_generic","let f = func <T> x <T> -> x"),
("let_pipeline_body","let f = x -> (x | as int)"), ("let_case","let c = case [true => 1]"),("let_range","let r = 1..5"),("let_neg","let n = -1"),("let_date","let d = @2020-01-01"),("let_lambda_multi","let f = func\n  x\n  y\n  -> x + y")]


def stmt_programs():
    """Every statement kind alone, every ordered pair of statement kinds with a newline / blank line /
    comment between them, and every pair inside a module."""
    items = []
    for an, a in STMTS:
        items.append((an, a + "\n"))
        for bn, b in STMTS:
            if an.startswith("main") and bn.startswith("main"):
                continue
            for sep, sn in (("\n", "nl"), ("\n\n", "blank"), ("\n# c\n", "comment")):
                items.append(("%s+%s/%s" % (an, bn, sn), a + sep + b + "\n"))
            items.append(("mod{%s+%s}" % (an, bn),
                          "module q {\n  " + a.replace("\n", "\n  ") + "\n  " + b.replace("\n", "\n  ") + "\n}\nfrom t\n"))
    return items


# ------------------------------------------------------------------ identifiers that need (or do not need) backticks
IDENT_WORDS = ["let", "into", "case", "prql", "type", "module", "internal", "func", "import", "enum", "true", "false", "null",
               "this", "that", "from", "select", "in", "std", "date", "and", "or", "not", "as", "loop", "window", "take",
               "a b", "a-b", "Ünï", "1a", "a.b", "a+b", "x'y", "日本", "_", "__x", "A", "camelCase", "tab\tname", "semi;colon", "q?"]


def ident_programs():
    """Every hostile identifier in every position an identifier can take (bare, first / middle / last part of a
    dotted path, alias, parameter, let / module name, join alias, relation-literal field, inside interpolations,
    named argument of a user function).  -> [(label, source)]"""
    out = []
    for w in IDENT_WORDS:
        q = "`" + w + "`"
        forms = {
            "bare": "from t | select {%s}" % q,
            "bare_pair": "from t | select {%s, b} | filter %s > 1" % (q, q),
            "path_last": "from t | select {t.%s}" % q,
            "path_last_cmp": "from t | filter t.%s == \"x\" | select {t.id, t.%s}" % (q, q),
            "path_this": "from t | derive {z = this.%s + 1}" % q,
            "path_that": "from t | join u (this.%s == that.%s)" % (q, q),
            "path_first": "from %s | select {%s.x}" % (q, q),
            "path_middle": "from t | select {a.%s.b}" % q,
            "path_both": "from %s | select {%s.%s}" % (q, q, q),
            "alias": "from t | select {%s = x}" % q,
            "alias_then_use": "from t | derive {%s = x + 1} | filter %s > 2 | sort {-%s}" % (q, q, q),
            "from_alias": "from %s = t | select {%s.x}" % (q, q),
            "join_alias": "from t | join %s = u (t.id == %s.id) | select {%s.y}" % (q, q, q),
            "let_name": "let %s = (from t | take 3)\nfrom %s | select {x}" % (q, q),
            "module_name": "module %s {\n  let inner = (from t)\n}\nfrom %s.inner" % (q, q),
            "func_param": "let f = %s -> %s + 1\nfrom t | derive {y = f x}" % (q, q),
            "func_named_param": "let f = a %s:1 -> a + %s\nfrom t | derive {y = f %s:2 x}" % (q, q, q),
            "literal_field": "from [{%s = 1, b = 2}] | select {%s}" % (q, q),
            "in_fstring": "from t | select {z = f\"{t.%s}-{%s}\"}" % (q, q),
            "in_sstring": "from t | select {z = s\"COALESCE({t.%s}, {%s})\"}" % (q, q),
            "sort_group": "from t | group {t.%s} (aggregate {n = count this}) | sort {t.%s}" % (q, q),
            "exclude": "from t | select {t.%s, t.b, c} | select !{t.%s}" % (q, q),
            "case_branch": "from t | derive {z = case [t.%s > 1 => t.%s, true => null]}" % (q, q),
            "range": "from t | filter (x | in t.%s..t.%s)" % (q, q),
            "annotation": "@{%s = 1}\nlet x = (from t)\nfrom x" % q,
            "type_field": "type rec = {%s = int}\nfrom t" % q,
        }
        for k, src in forms.items():
            out.append(("ident/%s/%s" % (k, w), src))
    return out


# ---- wrap-boundary sweep: the formatter first tries to write a node on one line of a given width and widens or
# expands on overflow; every syntactic element should cross every such width.  One identifier of each template is
# padded to every length 1..N, so that each later element (a type annotation, a default, `->`, an operator, a
# closing bracket) is the one that crosses the limit for some length.
WIDTH_TEMPLATES = [
    ("func_param_ty", "let {P} = func wanted source_relation <relation> -> (source_relation | select wanted)"),
    ("func_param_ty_first", "let {P} = func a <int> b -> a + b"),
    ("func_two_tys", "let {P} = func a <int> b <float> -> <float> a + b"),
    ("func_named_ty", "let {P} = func a scale <int>:2 -> a * scale"),
    ("func_named_default_call", "let {P} = func a d <int>:(math.abs 1) -> a + d"),
    ("func_ret_ty", "let {P} = func a b -> <text> f\"{a}{b}\""),
    ("func_generic", "let {P} = func x <array> y <bool> z <text>:null -> <bool> x == null || y"),
    ("func_body_pipeline", "let {P} = func rel <relation> -> <relation> (rel | filter a > 1 | select {a, b})"),
    ("param_name", "let f = func {P} <int> other <int> -> <int> {P} + other"),
    ("named_param_name", "let f = func a {P} <int>:1 -> a + {P}"),
    ("let_ty", "let {P} <int> = 5"),
    ("let_ty_tuple", "let {P} <{a = int, b = text}> = {a = 1, b = \"x\"}"),
    ("type_def", "type {P} = {first = int, second = text, third = [float]}"),
    ("select_alias", "from t | select {{P} = a + b, c = (f a b:2), d}"),
    ("call_named", "from t | derive {x = (f {P} a:1 b:2)}"),
    ("bool_chain", "from t | filter {P} > 1 && {P} < 2 || {P} == null"),
    ("join", "from t | join side:left {P} (==id) | select {t.id, {P}.x}"),
    ("case", "from t | derive {x = case [{P} > 1 => \"big\", {P} == null => null, true => \"small\"]}"),
    ("range_ty", "from t | filter ({P} | in 1..10) | take 1..5"),
    ("annotation", "@{binding_strength=11}\nlet {P} = func l r -> <bool> null"),
    ("module", "module {P} {\n  let inner = func a <int> -> <int> a + 1\n}\nfrom t | derive {x = ({P}.inner a)}"),
    ("into", "from t | select {a, b} | into {P}\nfrom {P} | take 1"),
    ("sstring", "from t | derive {x = s\"COALESCE({{P}}, 0) + 1\", y = f\"{{P}} and {b}\"}"),
    ("array", "from t | filter ({P} | in [1, 2, 3]) | derive {y = [{P}, a, b]}"),
]


def width_programs(max_len=110):
    out = []
    for name, tpl in WIDTH_TEMPLATES:
        for n in range(1, max_len + 1):
            pad = ("p" + "abcdefghij" * 12)[:n]
            out.append(("width:" + name, tpl.replace("{{P}}", "{" + pad + "}").replace("{P}", pad)))
    return out
