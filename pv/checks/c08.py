"""C08 — literal values reach the database unchanged and cannot alter the statement."""
import json, math, re
from .. import core

CORE_ALPHABET = ["a", "'", "\"", "\\", "%", "_", ";", "-", "/", "*", "\n", "é"]
HOSTILE = CORE_ALPHABET + ["\r", "\t", "{", "}", "`", "$", " ", "#", "--", "/*", "*/", "\\n", "\\'", "''", "\"\"", "中", "\U0001f600", "é", "\x7f", "\x01",
                           "\\\\", "\\u{41}", "\\x41", "%s", "?", ":", "@", "|", "&", ")", "(", "null", " ", "﻿", "ß"]
BACKSLASH_DIALECTS = {"mysql", "bigquery", "clickhouse", "snowflake"}   # backslash is an escape character in ordinary string literals


# ---- spellings of a string value in PRQL source (the generator knows v by construction)
def esc_std(v, q):
    out = []
    for ch in v:
        if ch == "\\":
            out.append("\\\\")
        elif ch == q:
            out.append("\\" + q)
        elif ch == "\n":
            out.append("\\n")
        elif ch == "\r":
            out.append("\\r")
        elif ch == "\t":
            out.append("\\t")
        elif ord(ch) < 0x20 or ch in ("\x7f", " ", "﻿"):
            out.append("\\u{%x}" % ord(ch))
        else:
            out.append(ch)
    return q + "".join(out) + q


def spellings(v):
    """-> list of (style, source text of a PRQL expression denoting v)"""
    out = [("dq_escaped", esc_std(v, '"')), ("sq_escaped", esc_std(v, "'"))]
    # plain spellings: the characters stand for themselves, including raw line breaks and
    # carriage returns (the lexer accepts them inside quoted strings); raw strings end at a line break
    if "\\" not in v:
        if '"' not in v:
            out.append(("dq_plain", '"' + v + '"'))
        if "'" not in v:
            out.append(("sq_plain", "'" + v + "'"))
    if '"""' not in v and not v.endswith('"') and not v.startswith('"') and "\\" not in v and v != "":
        out.append(("triple_dq", '"""' + v + '"""'))
    if '"' not in v and "\n" not in v and "\r" not in v:
        out.append(("raw_dq", 'r"' + v + '"'))
    if "'" not in v and '"' in v and "\n" not in v and "\r" not in v:
        out.append(("raw_sq", "r'" + v + "'"))
    if "{" not in v and "}" not in v and '"' not in v and "\\" not in v:
        out.append(("fstring_fragment", 'f"' + v + '"'))
    if ("{" in v or "}" in v) and '"' not in v and "\\" not in v:
        # braces stand for themselves when doubled; with no interpolation the f-string is one string value
        out.append(("fstring_braces", 'f"' + v.replace("{", "{{").replace("}", "}}") + '"'))
    out.append(("all_unicode_escapes", '"' + "".join("\\u{%x}" % ord(ch) for ch in v) + '"'))
    return out


def contexts(expr_text):
    return [("select", "from t | select {x = %s}" % expr_text),
            ("case_branch", "from t | select {x = case [a == 1 => %s, true => \"z\"]}" % expr_text),
            ("relation_literal", "from [{x = %s}]" % expr_text),
            ("filter", "from t | filter b == %s | select {x = b}" % expr_text),
            # other code paths a literal can take: an element of an `in` list, an argument of a std function,
            # the default value of a named function parameter
            ("in_list", "from t | filter (b | in [%s, \"zz\"]) | select {x = b}" % expr_text),
            ("func_arg", "from t | sort a | select {x = (text.replace \"q\" %s b)}" % expr_text),
            ("named_default", "let f = x d:%s -> x ?? d\nfrom t | select {x = (f null)}" % expr_text)]


def decode_sql_string(tok, dialect):
    """Decode a single-quoted SQL literal as the dialect reads it."""
    body = tok[1:-1]
    out = []
    i = 0
    bs = dialect in BACKSLASH_DIALECTS
    while i < len(body):
        ch = body[i]
        if ch == "'" and i + 1 < len(body) and body[i + 1] == "'":
            out.append("'")
            i += 2
        elif ch == "\\" and bs and i + 1 < len(body):
            n = body[i + 1]
            out.append({"n": "\n", "t": "\t", "r": "\r", "0": "\0", "b": "\b", "Z": "\x1a"}.get(n, n))
            i += 2
        else:
            out.append(ch)
            i += 1
    return "".join(out)


def fmt_view(r, out, obs, v=None):
    """Format-differential monitor (worker `fmtdiff`): the same program compiled with `format` on (the default of
    Options) must give the same token sequence, literal for literal, as the unformatted text judged above."""
    fd = r.get("fmtdiff")
    if not fd:
        return
    st = fd.get("status")
    obs["fmt_" + st] = obs.get("fmt_" + st, 0) + 1
    if st == "differs":
        # root-cause tag computed from the value itself: the emitted literal holds a backslash directly in front of
        # a quote character (a value ending in a backslash, or with backslash-quote inside), KF-C08-4
        tag = "+backslash_before_quote" if (v is not None and (v.endswith("\\") or "\\'" in v)) else ""
        out.append((("formatted_literal_differs" if fd.get("literal") else "formatted_statement_differs") + tag,
                    "token %s: unformatted %s, formatted %s; formatted sql=%r" % (fd.get("at"), fd.get("this"), fd.get("other"), (fd.get("other_sql") or "")[:300])))
    elif st in ("other_rejected", "other_panic"):
        out.append(("formatted_compile_fails", json.dumps(fd)[:300]))
    elif st == "untokenizable" and not fd.get("same_modulo_blanks"):
        obs["fmt_untokenizable_and_different"] = obs.get("fmt_untokenizable_and_different", 0) + 1



def judge_string(w, v, style, text, ctx_name, src, dialect, benign_ast, do_exec):
    """-> list of (symptom, detail), obs"""
    out = []
    r = w.call({"op": "compile", "src": src, "target": "sql." + dialect, "db": "d" if do_exec else None, "fmtdiff": True})
    if "sql" not in r:
        if "panic" in r:
            return [("panic:" + core.panic_sig(r["panic"]), "")], {"rejected": 1}
        return [], {"rejected": 1}
    sql = r["sql"]
    obs = {"compiled": 1}
    fmt_view(r, out, obs, v)
    # (b, c) dialect view: parse, find the literal, decode, compare structure with the benign twin
    p = w.call({"op": "sqlparse", "dialect": {"glaredb": "postgres"}.get(dialect, dialect), "sql": sql, "ast": True})
    if not p.get("ok"):
        out.append(("statement_broken:" + re.sub(r"\d+", "N", p.get("parse_error", "?"))[:50], "sql=%r" % sql[:200]))
    else:
        lits = []
        masked = mask_literals(p["ast"], lits)
        if benign_ast is not None and json.dumps(masked, sort_keys=True) != benign_ast:
            out.append(("statement_structure_changed", "sql=%r" % sql[:200]))
        obs["parsed"] = 1
        vals = [x for x in lits if isinstance(x, str)]
        if ctx_name != "fstring" and v not in vals and style != "fstring_fragment":
            out.append(("literal_decodes_differently", "wanted %r, literals in statement as read by %s: %r; sql=%r" % (v, dialect, vals[:3], sql[:200])))
        if dialect in BACKSLASH_DIALECTS and "\\" in v:
            # sqlparser's value is already unescaped by its tokenizer for these dialects
            obs["backslash_case"] = 1
    # (a) engine view
    if do_exec:
        ex = r.get("exec", {})
        if "sqlite_error" in ex:
            out.append(("engine_rejects:" + re.sub(r"\d+", "N", ex["sqlite_error"].split(" in ")[0])[:40], "sql=%r" % sql[:200]))
        else:
            rows = ex.get("rows", [])
            got = [row[0] for row in rows]
            want_rows = {"select": 2, "case_branch": 2, "relation_literal": 1, "filter": None, "in_list": None, "func_arg": 2, "named_default": 2}[ctx_name]
            if ctx_name in ("filter", "in_list"):
                pass
            elif ctx_name == "func_arg":
                # rows (1,'q'), (2,'r') in that order: replace 'q' by v -> v, 'r'
                if got != [v, "r"] and not (v == "" and got == ["", "r"]):
                    out.append(("executed_value_differs", "wanted %r got %r sql=%r" % ([v, "r"], got[:3], sql[:200])))
            elif ctx_name == "case_branch":
                if v not in got:
                    out.append(("executed_value_differs", "wanted %r got %r sql=%r" % (v, got[:3], sql[:200])))
            elif any(g != v for g in got) or len(got) != want_rows:
                out.append(("executed_value_differs", "wanted %r got %r sql=%r" % (v, got[:3], sql[:200])))
            obs["executed"] = 1
    return out, obs


def mask_literals(ast, sink):
    """Replace every literal value in the AST by a placeholder, collecting decoded values."""
    if isinstance(ast, dict):
        if "Value" in ast and isinstance(ast["Value"], dict) and "value" in ast["Value"]:
            val = ast["Value"]["value"]
            if isinstance(val, dict):
                for k, x in val.items():
                    if k.endswith("String") or k in ("SingleQuotedString", "DoubleQuotedString", "EscapedStringLiteral", "NationalStringLiteral"):
                        sink.append(x if isinstance(x, str) else str(x))
                    elif k == "Number":
                        sink.append(("num", x[0]))
                    elif k == "Boolean":
                        sink.append(("bool", x))
            return {"Value": "LIT"}
        return {k: mask_literals(x, sink) for k, x in ast.items() if k not in ("span", "token", "select_token", "with_token", "closing_paren_token")}
    if isinstance(ast, list):
        return [mask_literals(x, sink) for x in ast]
    return ast


NUMERIC = [
    # (prql text, python value)
    ("0", 0), ("1", 1), ("1_000", 1000), ("9223372036854775807", 9223372036854775807), ("0x1f", 31), ("0xFF", 255), ("0b101", 5), ("0o17", 15),
    ("0x_1f", 31), ("1_0", 10), ("007", 7),
    ("0.1", 0.1), ("1.5", 1.5), ("1e3", 1000.0), ("1E3", 1000.0), ("1.5e-3", 0.0015), ("1e308", 1e308), ("1e-308", 1e-308), ("5e-324", 5e-324),
    ("1.7976931348623157e308", 1.7976931348623157e308), ("0.30000000000000004", 0.30000000000000004), ("123456789.123456789", 123456789.12345679),
    ("1_000.000_1", 1000.0001), ("2.2250738585072014e-308", 2.2250738585072014e-308), ("9007199254740993.0", 9007199254740992.0),
    ("0.1e1", 1.0), ("100000000000000000000.0", 1e20), ("1e21", 1e21), ("1e22", 1e22), ("123456789012345678.0", 1.2345678901234568e17),
    ("0.000001", 1e-06), ("0.0000001", 1e-07), ("1e15", 1e15), ("1e16", 1e16), ("4.35", 4.35), ("0.07", 0.07), ("1.1", 1.1), ("2.675", 2.675),
    ("true", True), ("false", False),
]


def _based_literals():
    """Integer literals in base 16 / 8 / 2 of every digit count up to past 64 bits, with the smallest and the
    largest leading digit, and decimal integers around 2^31, 2^32, 2^53, 2^63, 2^64: whatever the compiler
    accepts must denote exactly that integer (a literal it cannot represent has to be rejected, not altered)."""
    out = []
    for prefix, base, digits, maxn in (("0x", 16, "0123456789abcdef", 18), ("0o", 8, "01234567", 24), ("0b", 2, "01", 66)):
        for n in range(1, maxn + 1):
            for lead in (digits[1], digits[-1]):
                for fill in (digits[0], digits[-1]):
                    body = lead + fill * (n - 1)
                    out.append((prefix + body, int(body, base)))
        out.append((prefix + "DEADBEEF".lower()[:8] * 2 if base == 16 else prefix + digits[-1] * 3, int(("deadbeef" * 2) if base == 16 else digits[-1] * 3, base)))
    for p in (31, 32, 53, 63, 64):
        for d in (-1, 0, 1):
            v = 2 ** p + d
            out.append((str(v), v))
    out.append(("0xDEADBEEFDEADBEEF", 0xDEADBEEFDEADBEEF))
    out.append(("0XFF", 255))
    return out


NUMERIC = NUMERIC + _based_literals()


def judge_number(w, text, val, dialect, do_exec):
    out = []
    src = "from t | select {x = %s}" % text
    r = w.call({"op": "compile", "src": src, "target": "sql." + dialect, "db": "d" if do_exec else None, "fmtdiff": True})
    if "sql" not in r:
        if "panic" in r:
            return [("panic:" + core.panic_sig(r["panic"]), "")], {}
        return [], {"rejected": 1}
    sql = r["sql"]
    fobs = {}
    fmt_view(r, out, fobs)
    m = re.match(r"SELECT (.*) AS x FROM t$", sql)
    tok = m.group(1) if m else None
    if tok is None:
        return out, fobs
    obs = dict(fobs, compiled=1)
    if isinstance(val, bool):
        ok = tok.lower() in (("true", "1") if val else ("false", "0"))
        if not ok:
            out.append(("boolean_token", "%s -> %s" % (text, tok)))
    elif isinstance(val, int):
        try:
            if int(tok) != val:
                out.append(("integer_token_differs", "%s -> %s" % (text, tok)))
        except ValueError:
            out.append(("integer_token_differs", "%s -> %s" % (text, tok)))
    else:
        try:
            f = float(tok)
            if f != val or math.isinf(f):
                out.append(("float_token_differs", "%s (= %r) -> %s (= %r)" % (text, val, tok, f)))
            if re.fullmatch(r"-?\d+", tok):
                out.append(("float_emitted_as_integer_token", "%s -> %s" % (text, tok)))
        except ValueError:
            out.append(("float_token_differs", "%s -> %s" % (text, tok)))
    if do_exec:
        ex = r.get("exec", {})
        if "rows" in ex and ex["rows"]:
            g = ex["rows"][0][0]
            if isinstance(val, bool):
                pass
            elif isinstance(val, int):
                if g != val:
                    out.append(("executed_value_differs", "%s -> %r" % (text, g)))
            elif isinstance(g, (int, float)):
                if g != val and not (val != 0 and abs(g - val) <= 2 * abs(val) * 2.3e-16):
                    out.append(("executed_value_differs", "%s (= %r) -> %r" % (text, val, g)))
            obs["executed"] = 1
    return out, obs



# ---- date / time / timestamp literals -------------------------------------------------------------
_T_RE = re.compile(r"^(?:(\d{4})-(\d{2})-(\d{2}))?(?:[T ])?(?:(\d{2})(?::(\d{2}))?(?::(\d{2}))?(?:\.(\d+))?)?(Z|[+-]\d{2}:?\d{2})?$")


def temporal_components(text):
    """'2020-01-02T10:20:30.5+02:00' -> (Y, M, D, h, m, s, frac, tz) with tz as 'Z' / '+HHMM' / None; None if unreadable"""
    m = _T_RE.match(text)
    if not m or not text:
        return None
    Y, M, D, h, mi, s, f, tz = m.groups()
    if tz and tz != "Z":
        tz = tz.replace(":", "")
    return (Y, M, D, h, mi, s, f, tz)


def gen_temporal(rng, tier):
    """-> list of (kind, prql literal without '@')"""
    dates = ["%s-%s-%s" % (y, mo, d) for y in ("0001", "1970", "2000", "2024", "9999") for mo in ("01", "02", "12") for d in ("01", "09", "28", "29", "31")]
    mins = ["", ":00", ":05", ":59"]
    secs = ["", ":00", ":07", ":59"]
    fracs = ["", ".5", ".05", ".123", ".000001", ".999999", ".120"]
    tzs = ["", "Z", "+00:00", "+02:00", "-08:30", "+0530", "-1100", "+14:00", "-00:00", "+0000", "-12:00", "+09:45"]
    times = []
    for h in ("00", "09", "12", "23"):
        for mi in mins:
            for s in (secs if mi else [""]):
                for f in (fracs if s else [""] + ([".5"] if tier != "quick" else [])):
                    for tz in tzs:
                        times.append(h + mi + s + f + tz)
    out = [("date", d) for d in dates]
    if tier == "quick":
        times = rng.sample(times, 400)
    out += [("time", t) for t in times]
    n_ts = 600 if tier == "quick" else 12000
    for _ in range(n_ts):
        out.append(("timestamp", rng.choice(dates) + "T" + rng.choice(times)))
    return out


def temporal_contexts(lit):
    return [("select", "from t | select {x = %s}" % lit),
            ("case_branch", "from t | select {x = case [a == 1 => %s, true => null]}" % lit),
            ("relation_literal", "from [{x = %s}]" % lit),
            ("derive_then_filter", "from t | derive {x = %s} | filter a == 1 | select {x}" % lit),
            ("func_default", "let f = y d:%s -> y ?? d\nfrom t | select {x = (f null)}" % lit)]


def sqlite_expected(kind, comps):
    """What the pinned SQLite's DATE()/TIME()/DATETIME() return for a *valid* value with at least hours and minutes;
    None when not judged (invalid calendar value, hour-only time, result outside year 1..9999)."""
    import datetime
    Y, M, D, h, mi, s, f, tz = comps
    try:
        if kind == "date":
            return datetime.date(int(Y), int(M), int(D)).isoformat()
        if mi is None:
            return None
        base = datetime.datetime(int(Y) if Y else 2000, int(M) if M else 1, int(D) if D else 1, int(h), int(mi), int(s or 0))
        if tz and tz != "Z":
            off = (int(tz[1:3]) * 60 + int(tz[3:5])) * (1 if tz[0] == "+" else -1)
            base = base - datetime.timedelta(minutes=off)
        if kind == "time":
            return base.strftime("%H:%M:%S")
        if not (1 <= base.year <= 9999):
            return None
        return "%04d-%02d-%02d %02d:%02d:%02d" % (base.year, base.month, base.day, base.hour, base.minute, base.second)
    except (ValueError, OverflowError):
        return None


_KW = {"date": ("DATE",), "time": ("TIME",), "timestamp": ("TIMESTAMP", "DATETIME")}


def judge_temporal(w, kind, text, ctx_name, src, dialect, do_exec):
    out = []
    r = w.call({"op": "compile", "src": src, "target": "sql." + dialect, "db": "d" if do_exec else None, "fmtdiff": True})
    if "sql" not in r:
        if "panic" in r:
            return [("panic:" + core.panic_sig(r["panic"]), "")], {"rejected": 1}
        return [], {"rejected": 1}
    sql = r["sql"]
    obs = {"compiled": 1}
    fmt_view(r, out, obs)
    p = w.call({"op": "sqlparse", "dialect": {"glaredb": "postgres"}.get(dialect, dialect), "sql": sql})
    if not p.get("ok"):
        out.append(("statement_broken", "sql=%r %s" % (sql[:200], p.get("parse_error", "")[:80])))
    else:
        obs["parsed"] = 1
    found = re.findall(r"\b([A-Za-z]+)\s*\(?\s*'([^']*)'", sql)
    want = temporal_components(text)
    ok = False
    for (kw, val) in found:
        if kw.upper() in _KW[kind] and temporal_components(val) == want:
            ok = True
    if not ok:
        out.append(("temporal_literal_differs", "@%s (%s) -> %r; sql=%r" % (text, kind, found[:3], sql[:200])))
    if do_exec:
        ex = r.get("exec", {})
        exp = sqlite_expected(kind, want)
        if "sqlite_error" in ex:
            out.append(("engine_rejects", "sql=%r %s" % (sql[:200], ex["sqlite_error"][:80])))
        elif exp is not None:
            got = [row[0] for row in ex.get("rows", [])]
            if ctx_name == "case_branch":
                got = [g for g in got if g is not None]
            if not got or any(g != exp for g in got):
                out.append(("executed_value_differs", "@%s wanted %r got %r sql=%r" % (text, exp, got[:3], sql[:200])))
            obs["executed"] = 1
    return out, obs


def _temporal_shard(seed, shard, items, tier):
    rng = core.shard_rng(seed, "C08t", shard)
    w = core.Worker()
    w.db_open("d", ["CREATE TABLE t (a INTEGER, b TEXT); INSERT INTO t VALUES (1, 'q'), (2, 'r');"])
    viols, seen = [], set()
    obs = {"temporal_cases": 0, "temporal_compiled": 0, "temporal_executed": 0, "temporal_rejected": 0, "temporal_forms": set()}
    for (kind, text) in items:
        ctxs = temporal_contexts("@" + text)
        for (ctx_name, src) in (ctxs if tier != "quick" else [ctxs[0], rng.choice(ctxs[1:])]):
            dialects = core.DIALECTS if tier != "quick" else ["sqlite", "generic"] + rng.sample(core.DIALECTS, 2)
            for dialect in dict.fromkeys(dialects):
                o, ob = judge_temporal(w, kind, text, ctx_name, src, dialect, dialect == "sqlite")
                obs["temporal_cases"] += 1
                for k, x in ob.items():
                    obs["temporal_" + k] = obs.get("temporal_" + k, 0) + x
                c = temporal_components(text)
                form = (kind, "min" if c[4] else "-", "sec" if c[5] else "-", "frac%d" % len(c[6]) if c[6] else "-",
                        ("Z" if c[7] == "Z" else c[7][0] + ("colon" if ":" in text[-6:] else "plain")) if c[7] else "-")
                obs["temporal_forms"].add(form + (dialect,))
                for (sym, det) in o:
                    sym = sym.split(":")[0]
                    key = (sym, dialect, form)
                    if key in seen:
                        continue
                    seen.add(key)
                    viols.append({"property": "C08", "symptom": sym, "shape": "%s/temporal/%s" % (dialect, "/".join(form)),
                                  "witness": {"kind": "temporal", "tkind": kind, "text": text, "ctx": ctx_name, "src": src, "dialect": dialect}, "detail": det})
    w.close()
    obs["temporal_forms"] = [list(x) for x in obs["temporal_forms"]]
    return viols, obs


def gen_strings(rng, tier):
    out = []
    # exhaustive to length 3 over the core alphabet
    import itertools
    for n in range(0, 4 if tier != "quick" else 3):
        for t in itertools.product(CORE_ALPHABET, repeat=n):
            out.append("".join(t))
    if tier == "quick":
        for _ in range(500):
            out.append("".join(rng.choice(CORE_ALPHABET) for _ in range(3)))
    # digraphs: every ordered pair of the characters that lexers and SQL printers treat specially,
    # alone, embedded and at either end (pairs such as CR LF, backslash quote, quote quote)
    special = ["'", "\"", "\\", "\n", "\r", "\t", " ", "{", "}", "-", "#"] if tier == "quick" else HOSTILE
    for x in special:
        for y in special:
            out.append(x + y)
            out.append("a" + x + y + "b")
            if tier != "quick":
                out.append(x + y + "b")
                out.append("a" + x + y)
    n_random = 600 if tier == "quick" else 20000
    for _ in range(n_random):
        out.append("".join(rng.choice(HOSTILE) for _ in range(rng.randint(1, 8))))
    return out


def _shard(seed, shard, strings, tier):
    rng = core.shard_rng(seed, "C08", shard)
    w = core.Worker()
    w.db_open("d", ["CREATE TABLE t (a INTEGER, b TEXT); INSERT INTO t VALUES (1, 'q'), (2, 'r');"])
    viols, seen = [], set()
    obs = {"cases": 0, "compiled": 0, "parsed": 0, "executed": 0, "rejected": 0, "styles": {}, "dialects": {}, "classes": set(), "needing_escape": 0}
    benign = {}
    for v in strings:
        sp = spellings(v)
        cls = "".join(sorted({("quote" if c in "'\"" else "backslash" if c == "\\" else "newline" if c in "\n\r" else "ctrl" if ord(c) < 32 else "nonascii" if ord(c) > 127 else "comment" if c in "-/*#" else "other") for c in v}))
        if "'" in v or "\\" in v:
            obs["needing_escape"] += 1
        picks = sp if tier != "quick" else [sp[0]] + rng.sample(sp[1:], min(2, len(sp) - 1))
        for (style, text) in picks:
            ctxs = contexts(text)
            for (ctx_name, src) in (ctxs if tier != "quick" else [ctxs[0], rng.choice(ctxs[1:])]):
                dialects = core.DIALECTS if tier != "quick" else ["sqlite", "generic"] + rng.sample(core.DIALECTS, 3)
                for dialect in dict.fromkeys(dialects):
                    bk = (ctx_name, dialect)
                    if bk not in benign:
                        bsrc = dict(contexts('"benign"'))[ctx_name]
                        rb = w.call({"op": "compile", "src": bsrc, "target": "sql." + dialect})
                        benign[bk] = None
                        if "sql" in rb:
                            pb = w.call({"op": "sqlparse", "dialect": {"glaredb": "postgres"}.get(dialect, dialect), "sql": rb["sql"], "ast": True})
                            if pb.get("ok"):
                                benign[bk] = json.dumps(mask_literals(pb["ast"], []), sort_keys=True)
                    o, ob = judge_string(w, v, style, text, ctx_name, src, dialect, benign[bk] if style != "fstring_fragment" else None,
                                         do_exec=dialect in ("sqlite", "generic"))
                    obs["cases"] += 1
                    for k, x in ob.items():
                        obs[k] = obs.get(k, 0) + x
                    obs["styles"][style] = obs["styles"].get(style, 0) + 1
                    obs["dialects"][dialect] = obs["dialects"].get(dialect, 0) + 1
                    obs["classes"].add((cls, style, dialect))
                    for (sym, det) in o:
                        sym = sym.split(":")[0]
                        special = frozenset(c for c in v if c in "'\\\"\n\r{}" or ord(c) < 32 or ord(c) > 127)
                        key = (sym, dialect, special)
                        if key in seen:
                            continue
                        seen.add(key)
                        # minimise the value (character-level ddmin) keeping spelling style and context
                        def fails(chars, sym=sym, style=style, ctx_name=ctx_name, dialect=dialect):
                            v2 = "".join(chars)
                            sp2 = dict(spellings(v2))
                            t2 = sp2.get(style, sp2["dq_escaped"])
                            src2 = dict(contexts(t2))[ctx_name]
                            o2, _ = judge_string(w, v2, style, t2, ctx_name, src2, dialect, benign[bk] if style != "fstring_fragment" else None,
                                                 dialect in ("sqlite", "generic"))
                            return any(s2.split(":")[0] == sym for s2, _ in o2)
                        small = "".join(core.ddmin(list(v), fails, max_tests=80)) if len(v) > 1 else v
                        sp2 = dict(spellings(small))
                        t2 = sp2.get(style, sp2["dq_escaped"])
                        src2 = dict(contexts(t2))[ctx_name]
                        feat = ("backslash-quote" if "\\'" in small else "quote-pair" if "''" in small else "backslash" if "\\" in small else json.dumps(small))
                        key2 = (sym, dialect, feat)
                        if key2 in seen:
                            continue
                        seen.add(key2)
                        r2 = w.call({"op": "compile", "src": src2, "target": "sql." + dialect})
                        viols.append({"property": "C08", "symptom": sym, "shape": "%s/%s" % (dialect, feat),
                                      "witness": {"kind": "string", "value": small, "style": style if style in sp2 else "dq_escaped", "text": t2, "ctx": ctx_name, "src": src2, "dialect": dialect},
                                      "detail": "value %r spelled %s -> %s" % (small, t2, r2.get("sql", "?")[:200])})
    if shard == 0:
        for (text, val) in NUMERIC:
            for dialect in core.DIALECTS:
                o, ob = judge_number(w, text, val, dialect, dialect in ("sqlite", "generic"))
                obs["cases"] += 1
                for k, x in ob.items():
                    obs[k] = obs.get(k, 0) + x
                for (sym, det) in o:
                    key = (sym, dialect, text)
                    if key in seen:
                        continue
                    seen.add(key)
                    ncls = "float" if isinstance(val, float) else "int"
                    if ncls == "int" and not isinstance(val, bool):
                        base = {"0x": "hex", "0o": "oct", "0b": "bin"}.get(text[:2].lower(), "dec")
                        ncls = "int:%s:%s" % (base, "fits_i64" if -2 ** 63 <= val < 2 ** 63 else "over_i64")
                    viols.append({"property": "C08", "symptom": sym, "shape": "%s/number/%s" % (dialect, ncls),
                                  "witness": {"kind": "number", "text": text, "value": val, "dialect": dialect}, "detail": det})
    w.close()
    obs["classes"] = [list(c) for c in obs["classes"]]
    return viols, obs


def run(tier, seed):
    run = core.Run("C08", tier, seed)
    rng = core.shard_rng(seed, "C08", 0)
    strings = gen_strings(rng, tier)
    N = core.NCPU
    res = core.run_shards(_shard, [dict(seed=seed, shard=i, strings=strings[i::N], tier=tier) for i in range(N)])
    obs = {"classes": set()}
    for v, o in res:
        run.extend(v)
        obs["classes"] |= set(tuple(c) for c in o.pop("classes"))
        core.merge_counts(obs, o)
    titems = gen_temporal(rng, tier)
    tres = core.run_shards(_temporal_shard, [dict(seed=seed, shard=i, items=titems[i::N], tier=tier) for i in range(N)])
    tforms = set()
    for v, o in tres:
        run.extend(v)
        tforms |= set(tuple(c) for c in o.pop("temporal_forms"))
        core.merge_counts(obs, o)
    best = {}
    for v in run.violations:
        k = (v["symptom"], v["shape"])
        if k not in best:
            best[k] = v
    run.violations = list(best.values())
    classes = obs.pop("classes")
    run.coverage = {
        "evaluations": obs.get("cases", 0) + obs.get("temporal_cases", 0),
        "distinct_nontrivial": len(classes) + len(tforms),
        "temporal_literals": len(titems),
        "temporal_form_cells": len(tforms),
        "rule": "string values: all strings up to length %d over a 12-symbol core alphabet (quotes, backslash, %% _ ; - / * newline, non-ASCII) plus random hostile strings up to 8 fragments; each in every spelling that can express it (escaped double/single quotes, plain, triple-quoted, raw, f-string fragment, all-\\u{} escapes) x contexts (select, case branch, relation literal, filter) x dialects; numerics: %d spellings x 12 dialects; date / time / timestamp literals: every optional part of the lexer's grammar (minutes, seconds, 1-6 fraction digits, Z and +-HH:MM / +-HHMM zones) present and absent x 5 contexts x dialects - the emitted typed string / SQLite function argument must have the same components, and on sql.sqlite the executed DATE()/TIME()/DATETIME() must return the value (to the second, zone applied) for valid calendar values. "
                "Oracles: executed value equals v on pinned SQLite (sqlite, generic); the statement parses for the dialect, its literal decodes to v, and the statement with literals masked equals the benign twin's. distinct non-trivial = distinct (character-class set, spelling, dialect) cells" % (2 if tier == "quick" else 3, len(NUMERIC)),
        "exhaustive": True,
        "distinct_values": len(set(strings)),
        "samples": [{"value": strings[200], "spellings": spellings(strings[200])[:3]}, {"value": strings[-1], "spellings": spellings(strings[-1])[:2]}],
    }
    run.coverage.update(obs)
    run.assumptions = [
        "the generator knows each value by construction from the book's escape table (\\\\ \\\" \\' \\n \\r \\t \\u{...}); raw strings take no escapes",
        "dialect view uses sqlparser's tokenizer for that dialect (backslash is an escape in MySQL/BigQuery/ClickHouse/Snowflake string literals)",
        "date/time literals: PRQL fixes no calendar validation, so out-of-range components (month 13, hour 25) are only compared component-wise, never executed; SQLite's DATETIME() drops fractional seconds, so the engine view compares to the second; hour-only times are not executed (SQLite reads a bare number as a Julian day)",
        "floats: the emitted token parsed by correctly-rounded float() must equal the value exactly; the executed value within 2 ulp (engine side)",
    ]
    return run


def replay(case):
    w = core.Worker()
    w.db_open("d", ["CREATE TABLE t (a INTEGER, b TEXT); INSERT INTO t VALUES (1, 'q'), (2, 'r');"])
    out = []
    if case["kind"] == "temporal":
        o, _ = judge_temporal(w, case["tkind"], case["text"], case["ctx"], case["src"], case["dialect"], case["dialect"] == "sqlite")
        out = [{"property": "C08", "symptom": s.split(":")[0], "shape": "", "witness": case, "detail": d} for s, d in o]
    elif case["kind"] == "number":
        o, _ = judge_number(w, case["text"], case["value"], case["dialect"], case["dialect"] in ("sqlite", "generic"))
        out = [{"property": "C08", "symptom": s, "shape": "", "witness": case, "detail": d} for s, d in o]
    else:
        bsrc = dict(contexts('"benign"'))[case["ctx"]]
        rb = w.call({"op": "compile", "src": bsrc, "target": "sql." + case["dialect"]})
        b = None
        if "sql" in rb:
            pb = w.call({"op": "sqlparse", "dialect": {"glaredb": "postgres"}.get(case["dialect"], case["dialect"]), "sql": rb["sql"], "ast": True})
            if pb.get("ok"):
                b = json.dumps(mask_literals(pb["ast"], []), sort_keys=True)
        o, _ = judge_string(w, case["value"], case["style"], case["text"], case["ctx"], case["src"], case["dialect"],
                            b if case["style"] != "fstring_fragment" else None, case["dialect"] in ("sqlite", "generic"))
        small = case["value"]
        feat = ("backslash-quote" if "\\'" in small else "quote-pair" if "''" in small else "backslash" if "\\" in small else json.dumps(small))
        out = [{"property": "C08", "symptom": s.split(":")[0], "shape": "%s/%s" % (case["dialect"], feat), "witness": case, "detail": d} for s, d in o]
    w.close()
    return out
