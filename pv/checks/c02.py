"""C02 — operator precedence, associativity, null and literal folding survive to SQL."""
import copy, itertools, json, re
from .. import core
from ..gen import gexpr
from ..ref import model

A_VALS = [None, -7, -2, -1, 0, 1, 2, 7]
B_VALS = [None, -2, 0, 1, 3]
C_VALS = [None, 0.5, -2.5, 2.0]
ROWS = [(i + 1, a, b, c) for i, (a, b, c) in enumerate(itertools.product(A_VALS, B_VALS, C_VALS))]
COLS = [("v", "id"), ("v", "a"), ("v", "b"), ("v", "c"), (None, "d"), (None, "e")]
# d and e are columns defined by a preceding derive as NEGATIVE constants: the compiler inlines them, so an
# expression over them exercises folding and the printing of negative literals under unary and binary operators
CONSTS = (-2, -1.5)
PREFIX = "from v | derive {d = (-2), e = (-1.5)} | select {id, r = %s}"
DB_STMTS = ["CREATE TABLE v (id INTEGER, a INTEGER, b INTEGER, c REAL);" +
            "".join("INSERT INTO v VALUES (%s);" % ", ".join("NULL" if x is None else repr(x) for x in r) for r in ROWS)]
EXEC_OPS = [o for o in gexpr.BINOPS if o != "~="]
gexpr.EXTRA_COLS[:] = ["d", "e"]


def struct(e):
    k = e[0]
    if k == "col":
        return "c"
    if k == "lit":
        return "null" if e[1] is None else ("b" if isinstance(e[1], bool) else ("f" if isinstance(e[1], float) else "i"))
    if k == "bin":
        return "(%s %s %s)" % (struct(e[2]), e[1], struct(e[3]))
    if k in gexpr.UN:
        return gexpr.UN[k] + struct(e[1])
    if k == "case":
        return "case[" + ",".join(struct(c) + "=>" + struct(v) for c, v in e[1]) + "]"
    return k


def shrink_candidates(e):
    """Smaller trees: each child, and the tree with one sub-tree replaced by a leaf."""
    k = e[0]
    if k == "bin":
        yield e[2]
        yield e[3]
        for i in (2, 3):
            if e[i][0] not in ("col", "lit"):
                for leaf in (["col", None, "a"], ["lit", 2]):
                    c = copy.deepcopy(e)
                    c[i] = leaf
                    yield c
                for sub in shrink_candidates(e[i]):
                    c = copy.deepcopy(e)
                    c[i] = sub
                    yield c
    elif k in gexpr.UN:
        yield e[1]
        for sub in shrink_candidates(e[1]):
            yield [k, sub]
    elif k == "case":
        for c, v in e[1]:
            yield c
            yield v
        if len(e[1]) > 1:
            for i in range(len(e[1])):
                yield ["case", [x for j, x in enumerate(e[1]) if j != i]]


def shrink(e, fails, max_tests=120):
    tests = 0
    progress = True
    while progress and tests < max_tests:
        progress = False
        for c in shrink_candidates(e):
            tests += 1
            if tests > max_tests:
                break
            if fails(c):
                e = c
                progress = True
                break
    return e


def find_expr(pl):
    try:
        stmt = pl["stmts"][-1]["VarDef"]["value"]["Pipeline"]["exprs"][-1]
        item = stmt["FuncCall"]["args"][0]["Tuple"][-1]
        item = dict(item)
        item.pop("alias", None)
        return item
    except Exception:
        return None


def judge_parse(w, e, mode):
    """printer (documented table) -> parser -> same tree?"""
    text = gexpr.pp(e, mode)
    r = w.call({"op": "pl_json", "src": "from v | select {id, r = %s}" % text})
    if "pl" not in r:
        if "panic" in r:
            return ("parse_panic", text)
        return ("parse_rejected:" + re.sub(r"`[^`]*`|\d+", "_", (r.get("errors") or [{}])[0].get("reason", "?"))[:60], text)
    got = gexpr.from_pr(find_expr(r["pl"]))
    if got is None:
        return ("parse_outside_language", text)
    if not gexpr.same_tree(got, e):
        return ("parse_tree_diff", "%s parsed as %s" % (text, gexpr.pp(got, "full")))
    return None


def judge_value(w, e, dialect, mode="min"):
    """emitted SQL value == value of the tree, for every row of the domain table."""
    text = gexpr.pp(e, mode)
    r = w.call({"op": "compile", "src": PREFIX % text, "target": "sql." + dialect, "db": "v"})
    if "sql" not in r:
        if "panic" in r:
            return ("compile_panic", core.panic_sig(r["panic"])), 0, 0
        return None, 0, 0          # rejection is not C02's business
    ex = r.get("exec", {})
    if "sqlite_error" in ex:
        m = ex["sqlite_error"].lower()
        if "no such function" in m:
            return None, 0, 0
        return ("sql_error:" + re.sub(r"\d+", "N", ex["sqlite_error"].split(" in ")[0])[:50], r["sql"]), 0, 0
    got = {row[0]: row[1] for row in ex["rows"]}
    if len(got) != len(ROWS):
        return ("row_count", "%d rows for %d" % (len(got), len(ROWS))), 0, 0
    judged = unspec = 0
    for row in ROWS:
        try:
            want = model.ev(e, model.Env(COLS, tuple(row) + CONSTS))
        except model.Unspecified:
            unspec += 1
            continue
        judged += 1
        have = got.get(row[0])
        if not model.val_eq(want, have):
            return ("value_diff:%s->%s" % (model._vclass(want), model._vclass(have)),
                    "%s on (a,b,c)=%r: tree value %r, SQL value %r; sql: %s" % (text, row[1:], model.norm(want), have, r["sql"])), judged, unspec
    return None, judged, unspec


def _shard(seed, shard, items):
    w = core.Worker()
    w.db_open("v", DB_STMTS)
    viols, seen = [], set()
    obs = {"trees": 0, "parse_checks": 0, "value_checks": 0, "rows_judged": 0, "rows_unspecified": 0, "triples": set(), "structs": set(),
           "folded_constant_subtrees": 0, "null_literal_comparisons": 0}
    for (e, origin) in items:
        obs["trees"] += 1
        obs["triples"] |= gexpr.triples_in(e)
        st = struct(e)
        obs["structs"].add(st)
        if re.search(r"\([if] \S+ [if]\)", st):
            obs["folded_constant_subtrees"] += 1
        if re.search(r"[!=]= null|null [!=]=", st):
            obs["null_literal_comparisons"] += 1
        found = []
        for mode in ("min", "full"):
            obs["parse_checks"] += 1
            res = judge_parse(w, e, mode)
            if res:
                found.append(("parse", mode, None, res))
        executable = "~=" not in gexpr.ops_in(e)
        if executable:
            for dialect in ("sqlite", "generic"):
                res, j, u = judge_value(w, e, dialect)
                obs["value_checks"] += 1
                obs["rows_judged"] += j
                obs["rows_unspecified"] += u
                if res:
                    found.append(("value", "min", dialect, res))
        for (kind, mode, dialect, (sym, det)) in found:
            key0 = (sym, dialect, mode, st)
            if key0 in seen:
                continue
            seen.add(key0)
            if kind == "parse":
                small = shrink(e, lambda c: (judge_parse(w, c, mode) or (None,))[0] == sym)
                res2 = judge_parse(w, small, mode)
            else:
                small = shrink(e, lambda c: "~=" not in gexpr.ops_in(c) and ((judge_value(w, c, dialect)[0]) or (None,))[0] == sym)
                res2 = judge_value(w, small, dialect)[0]
            det2 = res2[1] if res2 else det
            shape = "%s :: %s" % (dialect or ("paren-" + mode), struct(small))
            viols.append({"property": "C02", "symptom": sym, "shape": shape,
                          "witness": {"expr": small, "mode": mode, "dialect": dialect, "kind": kind, "text": gexpr.pp(small, mode)},
                          "detail": det2})
    w.close()
    obs["triples"] = [list(t) for t in obs["triples"]]
    obs["structs"] = len(obs["structs"])
    return viols, obs


def trees(tier, seed):
    rng = core.shard_rng(seed, "C02", 0)
    out = [(e, "triple") for _, e in gexpr.all_triples()] + [(e, "unary") for _, e in gexpr.unary_triples()]
    A, B, C = ["col", None, "a"], ["col", None, "b"], ["col", None, "c"]
    NULL = ["lit", None]
    # null handling, folding and case
    for op in ("==", "!="):
        out += [(["bin", op, A, NULL], "null"), (["bin", op, NULL, A], "null"), (["bin", op, NULL, NULL], "null"),
                (["bin", op, ["bin", "+", A, B], NULL], "null"), (["bin", op, A, ["bin", "??", NULL, NULL]], "null"),
                (["bin", op, A, ["case", [[["lit", False], B]]]], "fold"), (["not", ["bin", op, A, NULL]], "null")]
    for op in gexpr.ARITH + gexpr.CMP + ["&&", "||", "??"]:
        out += [(["bin", op, ["lit", 7], ["lit", 2]], "fold"), (["bin", op, ["neg", ["lit", 7]], ["lit", 2]], "fold"), (["bin", op, ["lit", 7], ["lit", 2.0]], "fold"),
                (["bin", op, A, ["bin", op, ["lit", 3], ["lit", 2]]], "fold"), (["bin", op, ["bin", op, ["lit", 3], ["lit", 2]], A], "fold"),
                (["bin", op, ["lit", 0], A], "fold"), (["bin", op, A, ["lit", 0]], "fold"), (["bin", op, ["lit", 1], A], "fold"), (["bin", op, A, ["lit", 1]], "fold"),
                (["bin", op, NULL, A], "fold"), (["bin", op, A, NULL], "fold"), (["bin", op, ["lit", True], A], "fold"), (["bin", op, A, ["lit", False]], "fold")]
    # literal pairs of equal value and different type (integer vs float), and of nearly equal value: folding a
    # comparison of two literals must give what the database gives for the same comparison
    for op in gexpr.CMP:
        for l, r in ((2, 2.0), (2.0, 2), (0, 0.0), (0.0, 0), (7, 7.0), (1, 1.5), (1.5, 1), (2, 2), (2.5, 2.5), (3, 2.0), (2.0, 3)):
            out += [(["bin", op, ["lit", l], ["lit", r]], "fold"), (["case", [[["bin", op, ["lit", l], ["lit", r]], A], [["lit", True], B]]], "fold"),
                    (["bin", "&&", ["bin", op, ["lit", l], ["lit", r]], ["bin", ">", A, ["lit", 0]]], "fold")]
        out += [(["bin", op, ["neg", ["lit", 1]], ["neg", ["lit", 1.0]]], "fold")]
    D, E = ["col", None, "d"], ["col", None, "e"]
    for x in (D, E):
        out += [(["neg", x], "const"), (["neg", ["neg", x]], "const"), (["bin", "-", A, x], "const"), (["bin", "-", A, ["neg", x]], "const"), (["bin", "-", x, x], "const"),
                (["bin", "*", ["neg", x], B], "const"), (["bin", "**", x, ["lit", 2]], "const"), (["bin", "-", ["lit", 0], x], "const"), (["bin", "+", ["neg", x], ["neg", x]], "const"),
                (["not", ["bin", "<", x, ["lit", 0]]], "const"), (["bin", "/", A, x], "const"), (["bin", "%", A, x], "const"), (["bin", "//", A, x], "const")]
        for op in gexpr.ARITH:
            out += [(["bin", op, A, ["neg", x]], "const"), (["bin", op, ["neg", x], A], "const"), (["neg", ["bin", op, x, A]], "const")]
    out += [(["case", [[["bin", ">", A, ["lit", 0]], B], [["lit", True], C]]], "case"),
            (["case", [[["lit", False], A], [["lit", True], B]]], "case"), (["case", [[["lit", True], A], [["bin", ">", B, ["lit", 0]], B]]], "case"),
            (["case", [[["bin", "==", A, NULL], ["lit", 1]], [["bin", ">", A, ["lit", 0]], ["lit", 2]]]], "case"),
            (["case", [[["bin", ">", A, ["lit", 0]], ["lit", 1]]]], "case"),
            (["bin", "+", ["case", [[["bin", ">", A, B], A], [["lit", True], B]]], ["lit", 1]], "case"),
            (["neg", ["neg", A]], "unary"), (["not", ["not", A]], "unary"), (["neg", ["lit", 2]], "unary"), (["bin", "-", A, ["neg", B]], "unary"),
            (["bin", "**", ["neg", ["lit", 2]], ["lit", 2]], "unary"), (["neg", ["bin", "**", ["lit", 2], ["lit", 2]]], "unary")]
    # depth-3 families: the child of a parenthesis-forcing parent has compound operands on both sides
    quads = gexpr.all_quads() if tier == "quick" else gexpr.all_quads(gops=[o for o in gexpr.BINOPS if o != "~="])
    out += [(e, "quad") for _, e in quads]
    n = 6000 if tier == "quick" else 60000
    for _ in range(n):
        out.append((gexpr.random_tree(rng, rng.randint(2, 4)), "random"))
    if tier != "quick":
        # all depth-3 left/right chains over one operator per precedence class
        reps = ["**", "*", "/", "+", "-", "==", "<", "??", "&&", "||"]
        for p in reps:
            for q in reps:
                for r_ in reps:
                    out.append((["bin", p, ["bin", q, ["bin", r_, A, B], C], A], "chain"))
                    out.append((["bin", p, A, ["bin", q, B, ["bin", r_, C, A]]], "chain"))
    return out


def run(tier, seed):
    run = core.Run("C02", tier, seed)
    items = trees(tier, seed)
    N = core.NCPU
    res = core.run_shards(_shard, [dict(seed=seed, shard=i, items=items[i::N]) for i in range(N)])
    obs = {"triples": set()}
    for v, o in res:
        run.extend(v)
        obs["triples"] |= set(tuple(t) for t in o.pop("triples"))
        core.merge_counts(obs, o)
    best = {}
    for v in run.violations:
        k = (v["symptom"], v["shape"])
        if k not in best:
            best[k] = v
    run.violations = list(best.values())
    triples = obs.pop("triples")
    bin_triples = {t for t in triples if t[0] in gexpr.BIN and t[1] in gexpr.BIN}
    run.coverage = {
        "evaluations": obs.get("parse_checks", 0) + obs.get("value_checks", 0),
        "distinct_nontrivial": obs.get("structs", 0),
        "rule": "every (parent, child, side) triple over the 17 binary operators (578) and every unary/binary adjacency, null-comparison, constant-folding and case pattern, every depth-3 'quad' (parent or unary) x child x (left grandchild operator | leaf) x (right grandchild operator | leaf) x side with the grandchild operators drawn from one representative per precedence class (quick) or all 16 executable operators (thorough), plus random trees of depth <= 4, each printed with minimal parentheses per the documented table and fully parenthesised; "
                "parse oracle: the parser must read the text back as the same tree; value oracle: the emitted SQL (sqlite, generic) evaluated on a %d-row domain table (NULL, negatives, zero, ints, floats) must equal the tree's value row by row; distinct non-trivial = distinct tree structures (operators + leaf kinds)" % len(ROWS),
        "binary_triples_covered": len(bin_triples), "binary_triples_total": 17 * 17 * 2,
        "all_adjacency_triples_covered": len(triples),
        "exhaustive": True,
        "domain_rows": len(ROWS),
        "quad_trees": sum(1 for _, o in items if o == "quad"),
        "samples": [gexpr.pp(items[5][0]), gexpr.pp(items[700][0]), gexpr.pp(items[-1][0])],
    }
    run.coverage.update(obs)
    if len(bin_triples) < 578:
        run.inconclusive = "only %d/578 operator triples covered" % len(bin_triples)
    run.assumptions = [
        "documented precedence: unary, range, ** (right), * / // %, + -, comparisons, ??, &&, || ; left-associative otherwise",
        "value oracle = pv/ref/model.py: SQL three-valued logic for column operands, null-ness for the literal null, / real, // truncation toward zero, % sign of dividend, ** via pow, ?? first non-null, case first true branch else NULL",
        "rows where the tree's value is unspecified (division/modulo by zero, overflow, pow outside its domain, float modulo) are not judged; booleans compare as 0/1; floats within 1e-9 relative",
        "~= is exercised by the parse oracle only (SQLite has no REGEXP function)",
    ]
    return run


def replay(case):
    w = core.Worker()
    w.db_open("v", DB_STMTS)
    e = case["expr"]
    out = []
    if case.get("kind") == "parse":
        res = judge_parse(w, e, case["mode"])
        shape = "paren-%s :: %s" % (case["mode"], struct(e))
    else:
        res = judge_value(w, e, case["dialect"])[0]
        shape = "%s :: %s" % (case["dialect"], struct(e))
    w.close()
    if res:
        out.append({"property": "C02", "symptom": res[0], "shape": shape, "witness": case, "detail": res[1]})
    return out
