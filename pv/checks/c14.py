"""C14 — formatting preserves the program and is idempotent."""
import re, json
from .. import core, corpus
from ..gen import grel, gexpr, gfeat, gnest

FEATURES = [
    "from t | select {x = 1.0, y = 1e3, z = 2.50, w = 1_000.5, v = 0.1e-2}",
    "from t | select {`import`, `enum`, `case`, `let`, `type`, `my col`, `a-b`, `Ünï`}",
    "from t | select {a = 0x1f, b = 0b101, c = 0o17, d = 1_000_000}",
    "from t | select {d = @2020-01-01, t = @12:30:00.123, ts = @2020-01-01T12:30:00+01:00, i = 3days, j = 10years}",
    "from t | select {s1 = \"a'b\", s2 = 'a\"b', s3 = \"\"\"tri\"ple\"\"\", s4 = \"new\\nline\\ttab\\\\\", s5 = r\"raw\\d\", s6 = \"\\u{1F600}\"}",
    "from t | select {f = f\"{a} and {b + 1} {{lit}}\", s = s\"SUM({a}) + {b}\"}",
    "from t | derive {x = (f 1 n:2 m:3), y = (g a b c), z = (a | h 1 | i)}",
    "let f = a b:2 c:\"x\" -> a + b\nlet g <int> = x <int> y <float> -> <int> x\nfrom t | derive {z = f 1 b:5}",
    "module m {\n  let x = 1\n  module n {\n    let y = 2\n  }\n}\nfrom t | derive {a = m.x + m.n.y}",
    "@{binding_strength=11}\nlet h = a -> s\"{a}\"\n#! doc comment\nlet k = 5\nfrom t | derive {b = h k}",
    "type my_t = int || text\ntype rel = [{a = int, b = text}]\nfrom t",
    "from t | select {r1 = 1..5, r2 = ..5, r3 = 1.., r4 = (a..b), n = -a, m = !b, p = +a}",
    "from t | filter a == null && b != null || !(c ?? false)",
    "from t | derive {c = case [a > 1 => \"x\", a < 0 && b > 2 => \"y\", true => null]}",
    "from t | group {a, b} (aggregate {n = count this, s = sum c}) | sort {-n, +s} | take 1..10",
    "from t | window rows:-2..2 (derive {m = average a}) | window rolling:3 (derive {s = sum a})",
    "from t | join side:left u (t.id == u.id && t.a > u.b) | select {t.a, u.b, c = t.a ?? u.b}",
    "from a | append b | remove c | intersect d | loop (filter x < 5 | select {x = x + 1})",
    "from t | select {very_long_column_name_number_one = a + b + c + d, very_long_column_name_number_two = (f a b c d e), very_long_column_name_number_three = case [a > 100000 => \"a very long string literal\", true => \"another fairly long string\"]}",
    "from t | derive {x = a - -b, y = a - (-b), z = -(a + b), w = -(-a), v = 2 ** -1, u = (-2) ** 2, q = -2 ** 2}",
    "from t | derive {x = (a + b) * c, y = a + (b * c), z = (a - b) - c, w = a - (b - c), v = a ** (b ** c), u = (a ** b) ** c}",
    "from t | select {this.a, that = t.b, `t`.c, t.`d e`}",
    "prql version:\"0.13\" target:sql.postgres\n\nfrom t | take 5",
    "from t | select {x = $1, y = $param.name}",
    "let a = [1, 2, 3]\nlet b = {x = 1, y = \"s\"}\nfrom t | filter (c | in a)",
    "from t\n# a comment\nselect {a, # trailing\n  b}\n",
    "from t | select {a = (b | as int), c = (d | as float)}",
    "into_test = 1\nfrom t | into x",
]


def sources(tier, seed):
    rng = core.shard_rng(seed, "C14", 0)
    out = [(s, "feature") for s in FEATURES] + [(s, "corpus") for s in corpus.sources()]
    out += [(src, "gfeat") for _, src in gfeat.programs() if len(src) < 3000]
    # every expression kind in every syntactic slot (two levels; three-level chains at both tiers: they are cheap)
    out += [(src, "gnest") for _, src in gnest.programs(3)]
    out += [(src, "gtype") for _, src in gnest.type_programs()]
    out += [(src, "gstmt") for _, src in gnest.stmt_programs()]
    out += [(src, "gident") for _, src in gnest.ident_programs()]
    # wrap-boundary sweep: one identifier of each template grows through every length, so that each later element
    # (type annotation, default value, `->`, operator, closing bracket) crosses each line width of the formatter
    out += [(src, "gwidth") for _, src in gnest.width_programs(70 if tier == "quick" else 130)]
    n_rel = 1500 if tier == "quick" else 8000
    for prof in ("core", "window", "project"):
        out += [(grel.random_program_text(rng, prof), "grel") for _ in range(n_rel // 3)]
    # every operator nesting + unary adjacency, minimal and full parentheses
    for (tr, e) in gexpr.all_triples() + gexpr.unary_triples():
        for mode in ("min", "full"):
            out.append(("from t | derive {x = %s}" % gexpr.pp(e, mode), "triple"))
    n_expr = 6000 if tier == "quick" else 60000
    for _ in range(n_expr):
        e = gexpr.random_tree(rng, rng.randint(2, 5), ops=gexpr.BINOPS)
        mode = "min" if rng.random() < 0.7 else "full"
        out.append(("from t | filter %s | derive {x = %s}" % (gexpr.pp(e, "full"), gexpr.pp(e, mode)), "gexpr"))
    return out


def shape_of_diff(d):
    path = re.sub(r"\[\d+\]", "", d.get("path", ""))
    tail = ".".join(path.split(".")[-3:])

    def kind(s):
        m = re.match(r'\s*\{"(\w+)"', s)
        if m:
            return m.group(1)
        if s.startswith("keys"):
            return s[:60]
        if s.startswith("len"):
            return "len"
        return re.sub(r"\d+(\.\d+)?", "N", s)[:30]
    return "%s:%s->%s" % (tail, kind(d.get("a", "")), kind(d.get("b", "")))


def judge(w, src, origin="?"):
    r = w.call({"op": "fmt", "src": src, "target": "sql.generic"})
    viols = []
    obs = {"sources": 1, "parsed": 0}

    def bad(sym, shape, detail):
        viols.append({"property": "C14", "symptom": sym, "shape": shape, "witness": {"src": src}, "detail": detail})
    if "abort" in r or "watchdog" in r:
        obs["aborted"] = 1
        return viols, obs
    if "parse_errors" in r:
        return viols, obs
    obs["parsed"] = 1
    if "panic" in r:
        bad("panic:" + r.get("stage", "?"), core.panic_sig(r["panic"]), r["panic"].get("msg", "")[:200])
        return viols, obs
    f1 = r.get("fmt", "")
    obs["changed_by_fmt"] = int(f1 != src)
    obs["multi_line"] = int(f1.count("\n") > 2)
    if "reparse_errors" in r:
        es = r["reparse_errors"] or [{}]
        reason = re.sub(r"`[^`]*`|\"[^\"]*\"|\d+", "_", es[0].get("reason", "?"))[:80]
        bad("reparse_error", reason, "fmt=%r" % f1[:300])
        return viols, obs
    if r.get("tree_equal") is False:
        bad("tree_diff", shape_of_diff(r.get("diff", {})), "diff=%s fmt=%r" % (json.dumps(r.get("diff"))[:300], f1[:200]))
    if r.get("idempotent") is False:
        l1, l2 = f1.split("\n"), r.get("fmt2", "").split("\n")
        i = 0
        while i < min(len(l1), len(l2)) and l1[i] == l2[i]:
            i += 1
        norm = lambda x: re.sub(r"[A-Za-z_][A-Za-z0-9_]*", "w", re.sub(r"\d+", "N", x))[:40]
        bad("not_idempotent", "%r->%r" % (norm(l1[i]) if i < len(l1) else None, norm(l2[i]) if i < len(l2) else None),
            "fmt=%r fmt2=%r" % (f1[:200], r.get("fmt2", "")[:200]))
    if "fmt2_errors" in r:
        bad("fmt2_error", "", str(r["fmt2_errors"])[:200])
    a, b = r.get("compile_src"), r.get("compile_fmt")
    if a is not None and b is not None and r.get("tree_equal") is True:
        ka = ("sql", a["sql"]) if "sql" in a else (("err",) if "errors" in a else ("panic",))
        kb = ("sql", b["sql"]) if "sql" in b else (("err",) if "errors" in b else ("panic",))
        if ka != kb:
            bad("compile_diff", "%s->%s" % (ka[0], kb[0]), "src=%r fmt=%r" % (str(a)[:200], str(b)[:200]))
        if ka[0] == "sql":
            obs["compiled_both"] = 1
    return viols, obs


def _shard(items):
    w = core.Worker()
    viols, obs = [], {}
    seen = set()
    for (s, origin) in items:
        v, o = judge(w, s, origin)
        for x in v:
            key = (x["symptom"], x["shape"])
            x["dup"] = key in seen
            seen.add(key)
        viols.extend(v)
        o["by_origin"] = {origin: o.get("parsed", 0)}
        core.merge_counts(obs, o)
    w.close()
    return viols, obs


def run(tier, seed):
    run = core.Run("C14", tier, seed)
    items = sources(tier, seed)
    N = core.NCPU
    res = core.run_shards(_shard, [dict(items=items[i::N]) for i in range(N)])
    obs = {}
    for v, o in res:
        # keep the shortest witness per class
        run.extend(v)
        core.merge_counts(obs, o)
    best = {}
    for v in run.violations:
        k = (v["symptom"], v["shape"])
        if k not in best or len(v["witness"]["src"]) < len(best[k]["witness"]["src"]):
            best[k] = v
    run.violations = list(best.values())
    distinct = len({s for s, _ in items})
    run.coverage = {
        "evaluations": obs.get("sources", 0),
        "distinct_nontrivial": obs.get("changed_by_fmt", 0),
        "rule": "sources = feature programs (every literal kind, identifiers needing backticks, named args, modules, annotations, types, long lines) + corpus + random relational programs + every expression kind, parenthesised, in every syntactic slot that takes an expression (binary/unary operands, range bounds, call/named arguments, parameter defaults, function bodies, case branches, tuple/array items, interpolations, transform arguments), two and three levels deep + every type expression in every place that takes a type + every ordered pair of statement kinds (newline / blank line / comment between them, top level and inside a module) + every (parent, child, side) operator nesting and unary adjacency in minimal and full parentheses + random expression trees; "
                "non-trivial = parseable sources whose formatted text differs from the input (the formatter actually rewrote something)",
        "distinct_sources": distinct,
        "operator_triples": len(gexpr.all_triples()) + len(gexpr.unary_triples()),
        "samples": [s for s, _ in items[:1] + items[-2:]],
    }
    run.coverage.update(obs)
    run.assumptions = [
        "tree equality = serialised PR tree with `span` and `doc_comment` keys removed (comments and positions are not part of the program)",
        "compile comparison uses target sql.generic, signature off; only made when the trees are equal (otherwise the tree difference is the finding)",
    ]
    return run


def replay(case):
    w = core.Worker()
    v, _ = judge(w, case["src"])
    w.close()
    return v
