"""C11 — compilation is a pure function of source tree and options.
Sequential model = outcome of the first call in a fresh single-threaded process.  Checked against:
repeated calls in a long-lived process with failing/panicking calls in between (hash seeds re-drawn per
map instance), further fresh processes, 16 threads released from a barrier (also as the process's very
first compile: OnceLock/RwLock initialisation race), and permuted file insertion orders."""
import json, os, re, itertools
from .. import core, corpus
from ..gen import grel, gtext

SPECIAL = [
    "let f = a b:1 c:2 d:3 -> a + b + c + d\nfrom t | derive {x = (f 1 d:4 c:5 b:6)}",
    "let x = (from t | select {a, b})\nfrom x | join y = x (==a) | join z = x (==a) | select {x.a, y.b, zb = z.b}",
    "prql foo:1 bar:2 baz:3\nfrom t",
    "let f = a -> a\nfrom t | derive {x = (f zz:1 yy:2 xx:3 4)}",
    "from a | join b (==id) | join c (==id) | select {id}",
    "from a | join b (==id) | select {x = nosuch}",
    "from a | select {p, q, r, s} | filter zz > 1",
    "from t | select {c1, c2, c3, c4, c5, c6, c7, c8} | sort {c3, -c1} | take 5 | group {c2, c4} (sort c5 | take 1) | sort c8",
    "from t | sort {a, b} | select {c} | join u (==c) | sort {u.d} | take 3 | select {e = c}",
    "from t | group {a, b, c} (aggregate {n = count this, s = sum d, m = max e}) | filter n > 1 | sort {-s, a}",
    "from t | derive {x = a + b} | filter x > 1 | derive {y = x * 2} | filter y > 2 | select {x, y, a}",
    "from t | window rolling:3 (derive {m = average a, s = sum b}) | filter m > 1 | sort s",
    "from t | select {a = foo.bar.baz}",
    "from t | take 1 2 3",
    "from t | join side:nosuch u (==a)",
    "from t | sort nosuch:1 {a}",
    "from t | select {x = case [a => 1, b => 2, c => 3]} | filter x == y",
    # several named arguments that each fail on their own (the first failure reported must not depend on map order)
    "let f = x a:1 b:2 -> x\nfrom t | derive {y = (f a:(==1) b:(==t.c) 3)}",
    "let f = x a:1 b:2 c:3 -> x\nfrom t | derive {y = (f c:(==2) a:(==1) b:(==t.c) 3)}",
    "let f = x a:1 b:2 -> x\nfrom t | derive {y = (f a:nosuch1 b:nosuch2 3)}",
    # the same name declared in several name-spaces: which relation keeps the name in SQL must not depend on map order
    "module north {\n  let totals = (from north_orders | group cust (aggregate {amt = sum amount}))\n}\nmodule south {\n  let totals = (from south_orders | group cust (aggregate {amt = sum amount}))\n}\nfrom n = north.totals\njoin s = south.totals (==cust)\nselect {n.cust, north = n.amt, south = s.amt}",
    "module a {\n  let x = (from ta | take 3)\n}\nmodule b {\n  let x = (from tb | take 3)\n}\nmodule c {\n  let x = (from tc | take 3)\n}\nfrom a.x | join bx = b.x (==id) | join cx = c.x (==id) | select {a.x.id, bx.v, cx.w}",
    "module m {\n  let best = (from t1 | sort a | take 2)\n}\nlet best = (from t2 | sort a | take 2)\nfrom best | join mb = m.best (==id) | select {best.id, mb.a}",
    "module m {\n  let table_0 = (from t1 | take 2)\n}\nlet table_1 = (from t2 | take 2)\nfrom m.table_0 | join table_1 (==id) | join (from t3 | take 1) (==id) | sort {this.id} | take 5 | filter id > 1",
    "module p {\n  module q {\n    let r = (from t1 | take 1)\n  }\n  let r = (from t2 | take 1)\n}\nlet r = (from t3 | take 1)\nfrom r | join a = p.r (==id) | join b = p.q.r (==id)",
    "module a {\n  let f = x -> x + 1\n}\nmodule b {\n  let f = x -> x + 2\n}\nfrom t | derive {u = a.f v, w = b.f v}",
]


def many_names_programs():
    """Constructs that carry a COLLECTION of names through the compiler (sets of excluded columns, partitions, named
    arguments, declarations of a module, columns of relation literals, join conditions ..), each written with five
    or six members: if any stage walks such a collection in hash order, the 120+ possible orders make a difference
    between two runs practically certain.  -> [(source, target)]"""
    five = ["e", "d", "c", "b", "a"]
    six = five + ["f"]
    out = []
    L5 = ", ".join(five)
    rels = {
        "table": "from t",
        "after_exclusion": "from t | select !{x}",
        "alias": "from r = t",
        "let": "let s = (from t)\nfrom s",
    }
    tails = ["", " | take 3", " | join u (==id)", " | append (from u | select {a, b})", " | filter a > 1 | sort b"]
    excl = ["select !{!{%s}}" % L5, "select !{!{%s}, c}" % L5, "select !{c, !{%s}}" % L5, "select !{!{%s}} | select !{b}" % L5,
            "select !{%s}" % L5, "select !{%s} | select !{g, h}" % L5, "select !{!{!{%s}}}" % L5,
            "derive {z = a + 1} | select !{!{%s}}" % L5, "select {t.*} | select !{!{%s}}" % L5]
    for rn, rel in rels.items():
        for ex in excl:
            for tl in tails:
                for tg in ("sql.sqlite", "sql.duckdb", "sql.bigquery", "sql.postgres"):
                    if tg != "sql.sqlite" and (tl not in ("", " | take 3") or rn == "alias"):
                        continue
                    out.append((rel + " | " + ex + tl, tg))
    # exclusion inside a let that is read twice, and on both sides of a join
    out.append(("let s = (from t | select !{!{%s}})\nfrom s | join s2 = s (==a) | select {s.b, s2.c}" % L5, "sql.sqlite"))
    out.append(("from t | select !{!{%s}} | join (from u | select !{!{%s}}) (==a)" % (L5, L5), "sql.generic"))
    out.append(("from t | join u (==id) | select !{t.%s}" % ", t.".join(five), "sql.duckdb"))
    out.append(("from t | join u (==id) | select !{t.e, u.d, t.c, u.b, t.a}", "sql.snowflake"))
    out.append(("from t | join u (==id) | select !{!{t.e, u.d, t.c, u.b, t.a}}", "sql.sqlite"))
    # partitions / keys / distinct
    for tg in ("sql.sqlite", "sql.postgres", "sql.duckdb", "sql.clickhouse", "sql.mssql"):
        out.append(("from t | group {%s} (take 1)" % L5, tg))
        out.append(("from t | group {%s} (sort {f} | take 2)" % L5, tg))
        out.append(("from t | group {%s} (aggregate {n = count this})" % L5, tg))
        out.append(("from t | group {%s} (window rolling:2 (derive {s = sum f}))" % L5, tg))
        out.append(("from t | select {%s} | group {%s} (take 1)" % (L5, L5), tg))
        out.append(("from t | sort {%s} | take 3 | derive {g = a + 1} | filter g > 2" % L5, tg))
    # join conditions, named arguments, many declarations, relation literals, interpolations, tuples
    out.append(("from t | join u (%s)" % " && ".join("==" + n for n in five), "sql.sqlite"))
    out.append(("from t | join side:left u (%s) | select {t.a, u.b}" % " && ".join("t.%s == u.%s" % (n, n) for n in five), "sql.generic"))
    out.append(("let f = x %s -> x + %s\nfrom t | derive {y = (f 1 %s)}" % (" ".join(n + ":0" for n in six), " + ".join(six), " ".join("%s:%d" % (n, i) for i, n in enumerate(five))), "sql.sqlite"))
    out.append(("let f = x %s -> x + %s\nfrom t | derive {y = (f 1 %s)}" % (" ".join(n + ":0" for n in six), " + ".join(six), " ".join("%s:nosuch_%s" % (n, n) for n in five)), "sql.sqlite"))
    out.append(("\n".join("let %s = (from t_%s | take 2)" % (n, n) for n in six) + "\nfrom a" + "".join(" | join %s (==id)" % n for n in six[:4] if n != "a") + " | append f", "sql.sqlite"))
    out.append(("module m {\n" + "\n".join("  let %s = (from t_%s | take 2)" % (n, n) for n in six) + "\n}\nfrom m.e" + "".join(" | join m.%s (==id)" % n for n in ("d", "c", "b", "a")), "sql.generic"))
    out.append(("from [{%s}] | select !{c}" % ", ".join("%s = %d" % (n, i) for i, n in enumerate(six)), "sql.sqlite"))
    out.append(("from [{%s}] | select !{!{e, c, a}}" % ", ".join("%s = %d" % (n, i) for i, n in enumerate(six)), "sql.sqlite"))
    out.append(('from_text format:json \'[{%s}]\' | select !{c}' % ", ".join('"%s": %d' % (n, i) for i, n in enumerate(six)), "sql.sqlite"))
    out.append(('from_text format:json \'{"columns": [%s], "data": [[%s]]}\'' % (", ".join('"%s"' % n for n in six), ", ".join("1" for _ in six)), "sql.sqlite"))
    out.append(('from_text format:csv """\n%s\n1,2,3,4,5,6\n"""' % ",".join(six), "sql.sqlite"))
    out.append(('from t | derive {x = s"F(%s)"} | select {x, y = f"%s"}' % (", ".join("{%s}" % n for n in six), "-".join("{%s}" % n for n in six)), "sql.sqlite"))
    out.append(("from s = s\"SELECT %s FROM tbl\" | select !{c}" % ", ".join(six), "sql.sqlite"))
    out.append(("from s = s\"SELECT %s FROM tbl\" | select !{!{%s}}" % (", ".join(six), L5), "sql.sqlite"))
    out.append(("from t | select {x = {%s}} | select {x.e, x.a}" % L5, "sql.sqlite"))
    out.append(("from t | select {%s} | select {this.*}" % L5, "sql.sqlite"))
    out.append(("from t | select {%s} | join u (==a) | select {t.*, u.*}" % L5, "sql.duckdb"))
    out.append(("from t | aggregate {%s}" % ", ".join("s_%s = sum %s" % (n, n) for n in six), "sql.sqlite"))
    out.append(("from t | sort {%s} | select {z = 1} | take 5" % L5, "sql.sqlite"))
    out.append(("from t | select {%s} | filter nosuch > 1" % L5, "sql.sqlite"))
    out.append(("from t | join u (==id) | join v (==id) | join w (==id) | select {id}", "sql.sqlite"))
    out.append(("type ty = {%s}\nfrom t" % ", ".join("%s = int" % n for n in six), "sql.sqlite"))
    out.append(("from t | loop (filter a > 1 | select {%s})" % L5, "sql.sqlite"))
    return out


NOISE_ERR = "from t | select {a} | filter nosuchcolumn > 1"
NOISE_PANIC = "from t1\nselect{t1.s,n6=a}\nselect{n6,s, n7 = n6}\nselect {n6, n8 = s}\nfilter (2 > (n6 ))\nsort {n6, n8}\n"


def _parts(o):
    out = {}
    head, _, fmt = o.partition("\nFMT:")
    if _:
        out["FMT"] = fmt
    head, sep, rq = head.partition("\nRQ:")
    if sep:
        out["RQ"] = rq
    k, _, v = head.partition(":")
    out[k] = v
    return out


def diff_part(a, b):
    ka, kb = _parts(a), _parts(b)
    for k in ("OK", "ERR", "PANIC", "RQ", "FMT"):
        if ka.get(k) != kb.get(k):
            if k == "ERR" and k in ka and k in kb:
                try:
                    ea, eb = json.loads(ka[k]), json.loads(kb[k])
                    for x, y in zip(ea, eb):
                        for f in ("reason", "hints", "span", "code", "display"):
                            if x.get(f) != y.get(f):
                                return "error." + f
                except Exception:
                    pass
                return "error"
            return {"OK": "sql", "RQ": "rq", "FMT": "fmt_text", "PANIC": "panic", "ERR": "ok_vs_err"}.get(k, k)
    return "other"


def norm_shape(src_or_outcome):
    m = re.search(r'"reason":"([^"]*)"', src_or_outcome)
    s = m.group(1) if m else src_or_outcome[:60]
    return re.sub(r"`[^`]*`|\d+", "_", s)[:70]


def fresh_outcome(src, target, rq=True):
    w = core.Worker()
    r = w.call({"op": "outcome", "src": src, "target": target, "rq": rq, "display": "plain"})
    w.close()
    return r.get("outcome")


def _history_shard(items, K):
    A = core.Worker()
    viols = []
    obs = {"programs": 0, "calls": 0, "fresh_processes": 0, "err_programs": 0, "ok_programs": 0, "panic_programs": 0,
           "history_transitions": {"after_err": 0, "after_panic": 0, "after_ok": 0}, "nontrivial": 0}
    seen = set()
    for idx, (src, target) in enumerate(items):
        base = fresh_outcome(src, target)
        obs["fresh_processes"] += 1
        if base is None:
            continue
        obs["programs"] += 1
        kind = base.split(":", 1)[0]
        obs[{"OK": "ok_programs", "ERR": "err_programs", "PANIC": "panic_programs"}.get(kind, "ok_programs")] += 1
        if kind == "ERR" or "\nRQ:{" in base and base.count('"Join"') + base.count('"From"') > 2 or "named_args" in base or ":" in src.split("\n")[0]:
            obs["nontrivial"] += 1
        outs = []
        for k in range(K):
            if k % 3 == 1:
                A.call({"op": "outcome", "src": NOISE_ERR, "target": target})
                obs["history_transitions"]["after_err"] += 1
            elif k % 3 == 2:
                A.call({"op": "outcome", "src": NOISE_PANIC, "target": target})
                obs["history_transitions"]["after_panic"] += 1
            else:
                obs["history_transitions"]["after_ok"] += 1
            r = A.call({"op": "outcome", "src": src, "target": target, "rq": True, "display": "plain"})
            obs["calls"] += 1
            if "outcome" in r:
                outs.append(("history", r["outcome"]))
        for _ in range(2):
            o = fresh_outcome(src, target)
            obs["fresh_processes"] += 1
            if o is not None:
                outs.append(("process", o))
        for mode, o in outs:
            if o != base:
                what = diff_part(base, o)
                shape = mode + ":" + norm_shape(o if what.startswith("error") else src)
                key = (what, shape)
                viols.append({"property": "C11", "symptom": "nondeterministic:" + what, "shape": shape,
                              "witness": {"src": src, "target": target, "mode": mode} if key not in seen else None,
                              "detail": "first call in fresh process: %r ... later (%s): %r" % (_excerpt(base, o), mode, _excerpt(o, base))})
                seen.add(key)
                break
    A.close()
    return viols, obs


WORDS = ("tag percent time timestamp identity system top date year month day hour minute second zone level type name value text status comment key data "
         "count size position role source target version number char int float real double blob binary boolean json xml uuid interval external language "
         "location owner schema sequence server share snapshot statistics storage stream tablespace unknown usage valid validate work write user order "
         "group table index limit offset window filter first last rows range glob isnull notnull others indexed analyse variadic lookup proto pivot "
         "qualify ilike lateral fetch freeze grant only some any array both leading trailing verbose concurrently authorization").split()


def word_programs(rng, n):
    """Programs whose identifiers are ordinary words that some dialects reserve and others do not: how they are
    quoted depends on the target, so a per-process memo or a leaked option shows when targets alternate."""
    out = []
    for _ in range(n):
        ws = rng.sample(WORDS, 4)
        out.append("from `%s`\nselect {`%s`, `%s`, x = `%s` + 1}\nsort {`%s`}\n" % (ws[0], ws[1], ws[2], ws[3], ws[1]))
    return out


def _cross_shard(progs, seed, shard):
    """Option history: every program is compiled for all 12 dialects inside one long-lived process (A, in a random
    order of dialects) and inside another (B, in the reverse order); each (program, dialect) outcome must agree
    between A and B and with the first call of a fresh process (sampled)."""
    rng = core.shard_rng(seed, "C11:cross", shard)
    A, B = core.Worker(), core.Worker()
    viols, seen = [], set()
    obs = {"cross_programs": 0, "cross_calls": 0, "cross_fresh": 0}
    targets = ["sql." + d for d in core.DIALECTS]
    for src in progs:
        order = list(targets)
        rng.shuffle(order)
        oa = {t: A.call({"op": "outcome", "src": src, "target": t, "rq": False, "display": "plain"}).get("outcome") for t in order}
        ob = {t: B.call({"op": "outcome", "src": src, "target": t, "rq": False, "display": "plain"}).get("outcome") for t in reversed(order)}
        obs["cross_programs"] += 1
        obs["cross_calls"] += 2 * len(order)
        fresh = {}
        for t in [order[-1], order[0], "sql.redshift"]:
            fresh[t] = fresh_outcome(src, t, rq=False)
            obs["cross_fresh"] += 1
        for t in order:
            cands = [("history_order", oa[t], ob[t])] + ([("history_vs_fresh", fresh[t], oa[t]), ("history_vs_fresh", fresh[t], ob[t])] if t in fresh else [])
            for (mode, x, y) in cands:
                if x is None or y is None or x == y:
                    continue
                what = diff_part(x, y)
                shape = "options_history:" + t
                key = (what, shape)
                viols.append({"property": "C11", "symptom": "nondeterministic:" + what, "shape": shape,
                              "witness": {"src": src, "target": t, "mode": "cross", "order": order} if key not in seen else None,
                              "detail": "%s: same (source, %s) gave %r ... vs %r after a different sequence of earlier compilations" % (mode, t, _excerpt(x, y), _excerpt(y, x))})
                seen.add(key)
                break
    A.close()
    B.close()
    return viols, obs


def _excerpt(a, b):
    i = 0
    while i < min(len(a), len(b)) and a[i] == b[i]:
        i += 1
    return a[max(0, i - 40):i + 80]


def _thread_shard(chunks, threads, first_call):
    viols = []
    obs = {"stress_runs": 0, "stress_calls": 0, "overlapping_pairs": 0, "first_call_races": 0}
    seen = set()
    w = core.Worker()
    for (srcs, target) in chunks:
        bases = []
        b = core.Worker()
        for s in srcs:
            r = b.call({"op": "outcome", "src": s, "target": target, "display": "plain"})
            bases.append(r.get("outcome"))
        b.close()
        if first_call:
            w.close()
            w = core.Worker()          # stress is this process's very first compile
            obs["first_call_races"] += 1
        r = w.call({"op": "stress", "srcs": srcs, "threads": threads, "reps": 1 if first_call else 2, "target": target, "display": "plain"}, timeout=300)
        if "outcomes" not in r:
            continue
        obs["stress_runs"] += 1
        obs["stress_calls"] += r["calls"]
        obs["overlapping_pairs"] += r["overlapping_pairs"]
        for s, base, outs in zip(srcs, bases, r["outcomes"]):
            if base is None:
                continue
            for o in outs:
                if o != base:
                    what = diff_part(base, o)
                    shape = "threads:" + norm_shape(o if what.startswith("error") else s)
                    key = (what, shape)
                    viols.append({"property": "C11", "symptom": "nondeterministic:" + what, "shape": shape,
                                  "witness": {"src": s, "target": target, "mode": "threads"} if key not in seen else None,
                                  "detail": "sequential: %r ... concurrent: %r" % (_excerpt(base, o), _excerpt(o, base))})
                    seen.add(key)
                    break
    w.close()
    return viols, obs


PROJECTS = [
    [("Project.prql", "from m1.a | join m2.b (==id) | select {m1.a.x, m2.b.y}"), ("m1.prql", "let a = (from ta | select {id, x})"), ("m2.prql", "let b = (from tb | select {id, y})")],
    [("Project.prql", "from m1.a | derive {z = m2.f x}"), ("m1.prql", "let a = (from ta | select {id, x})"), ("m2.prql", "let f = v -> v + 1"), ("m3.prql", "let unused = 1"), ("sub/m4.prql", "let g = v -> v * 2")],
    [("Project.prql", "from m1.a | filter nosuch > 1"), ("m1.prql", "let a = (from ta | select {id, x})"), ("m2.prql", "let b = (from tb")],
    [("Alpha.prql", "from ta | select {a}"), ("Beta.prql", "from tb | select {b}"), ("m1.prql", "let c = 1")],
    [("m1.prql", "let a = (from ta)"), ("m2.prql", "let b = (from tb)")],
    [("Project.prql", "from m1.a | take 1"), ("m1.prql", "let a = (from ta | select {x = m2.k})"), ("m2.prql", "let k = 5")],
    # errors in several files of one compilation: the ORDER in which they are reported is part of the outcome
    [("Project.prql", "from alpha.t"), ("alpha.prql", "let t = (from a | select {x = 1 +})"), ("beta.prql", "let u = (from b | filter )x == 1)")],
    [("Project.prql", "from alpha.t | select {x = }"), ("alpha.prql", "let t = (from a | select {x = 1 +})"), ("beta.prql", "let u = (from b | filter )x == 1)"), ("sub/gamma.prql", "let v = [1, 2")],
    [("Project.prql", "from alpha.t"), ("alpha.prql", "let t = (from a | select {x = 1 +})\nlet t2 = (from a | take )"), ("beta.prql", "let ok = 1"), ("zeta.prql", "let u = (from b | filter )x == 1)\n\nlet w = {")],
    [("b.prql", "let u = (from b | filter )x == 1)"), ("a.prql", "let t = (from a | select {x = 1 +})"), ("c.prql", "let v = 'unterminated")],
]


def _files_shard(dummy):
    w = core.Worker()
    viols = []
    obs = {"projects": 0, "orders": 0}
    for pi, files in enumerate(PROJECTS):
        outs = {}
        perms = list(itertools.permutations(files))[:24]
        for perm in perms:
            for rep in range(3):
                r = w.call({"op": "tree_compile", "sources": [[p, t] for p, t in perm], "main_path": [], "target": "sql.generic", "display": "plain"})
                obs["orders"] += 1
                if "sql" in r:
                    # spans carry the source id, which legitimately follows insertion order
                    k = "OK:" + r["sql"] + "\nRQ:" + re.sub(r'"span":("\d+:\d+-\d+"|null),?', "", r["rq_json"])
                elif "errors" in r:
                    # spans carry the source id, which legitimately follows insertion order: compare everything else + file named
                    es = [{f: e.get(f) for f in ("reason", "hints", "code")} for e in r["errors"]]
                    k = "ERR:" + json.dumps(es, sort_keys=True)
                else:
                    k = "OTHER:" + json.dumps(r, sort_keys=True)[:300]
                outs.setdefault(k, perm)
        obs["projects"] += 1
        if len(outs) > 1:
            ks = list(outs)
            what = diff_part(ks[0], ks[1])
            viols.append({"property": "C11", "symptom": "nondeterministic:" + what, "shape": "file_order:project%d" % pi,
                          "witness": {"files": [list(f) for f in files], "mode": "file_order"},
                          "detail": "%d distinct outcomes over insertion orders/repetitions: %r vs %r" % (len(outs), _excerpt(ks[0], ks[1]), _excerpt(ks[1], ks[0]))})
    w.close()
    return viols, obs


TSAN_BIN = os.path.join(core.ROOT, "harness", "target-tsan", "x86_64-unknown-linux-gnu", "release", "pv-tsan")


def tsan_phase(progs_targets, obs):
    """ThreadSanitizer build of the thread-stress program (thorough tier only). A data-race report in
    code reached by concurrent compiles is a violation; if the instrumented build cannot be produced
    or its self-test does not fire, the phase yields no verdict (recorded, never folded into held)."""
    import subprocess, tempfile
    info = {"status": "not_run"}
    obs["tsan"] = info
    env = dict(os.environ, RUSTFLAGS="-Zsanitizer=thread", CARGO_TARGET_DIR=os.path.join(core.ROOT, "harness", "target-tsan"), CARGO_NET_OFFLINE="true")
    try:
        b = subprocess.run(["cargo", "+nightly", "build", "-Zbuild-std", "--target", "x86_64-unknown-linux-gnu", "--release", "--offline", "-p", "pv-tsan"],
                           cwd=os.path.join(core.ROOT, "harness"), env=env, stdout=subprocess.PIPE, stderr=subprocess.STDOUT, text=True, timeout=1500)
    except Exception as e:
        info.update(status="unavailable", reason="build: %s" % e)
        return []
    if b.returncode != 0 or not os.path.exists(TSAN_BIN):
        info.update(status="unavailable", reason="instrumented build failed: " + b.stdout[-300:])
        return []
    tenv = dict(os.environ, TSAN_OPTIONS="halt_on_error=0 exitcode=66 second_deadlock_stack=1")
    st = subprocess.run([TSAN_BIN, "--selftest"], env=tenv, stdout=subprocess.PIPE, stderr=subprocess.PIPE, text=True, timeout=120)
    if st.returncode != 66 or "ThreadSanitizer: data race" not in st.stderr:
        info.update(status="not_effective", reason="self-test race was not reported (exit %s)" % st.returncode)
        return []
    viols = []
    info.update(status="ran", processes=0, programs=0, calls=0, reports=0, mismatching_programs=0)
    P = 32
    batches = [progs_targets[i::P] for i in range(P)]
    procs = []
    tmp = tempfile.mkdtemp(prefix="pvtsan", dir=os.path.join(core.ROOT, "harness", "target-tsan"))
    for i, bt in enumerate(batches):
        if not bt:
            continue
        f = os.path.join(tmp, "b%d.json" % i)
        json.dump([{"src": s, "target": t} for s, t in bt], open(f, "w"))
        procs.append((bt, subprocess.Popen([TSAN_BIN, f, "8"], env=tenv, stdout=subprocess.PIPE, stderr=subprocess.PIPE, text=True)))
        if len(procs) % core.NCPU == 0:
            for _, pr in procs[-core.NCPU:]:
                pr.wait()
    seen = set()
    for bt, pr in procs:
        try:
            out, err = pr.communicate(timeout=900)
        except subprocess.TimeoutExpired:
            pr.kill()
            info["watchdog"] = info.get("watchdog", 0) + 1
            continue
        info["processes"] += 1
        try:
            summ = json.loads(out.strip().splitlines()[-1])
        except Exception:
            summ = {}
        info["programs"] += summ.get("programs", 0)
        info["calls"] += summ.get("calls", 0)
        for idx in summ.get("mismatches", []):
            info["mismatching_programs"] += 1
            src, tgt = bt[idx]
            viols.append({"property": "C11", "symptom": "nondeterministic:threads_tsan", "shape": "threads:" + norm_shape(src),
                          "witness": {"mode": "threads", "src": src, "target": tgt}, "detail": "threads of one barrier release disagreed under the TSan build"})
        blocks = err.split("==================")
        for blk in blocks:
            if "WARNING: ThreadSanitizer" not in blk:
                continue
            info["reports"] += 1
            frames = [re.sub(r"\s+\(.*$", "", l.split(" ", 2)[-1]).strip() for l in blk.splitlines() if re.match(r"\s+#\d+ ", l)]
            own = [f for f in frames if "prqlc" in f or "prql" in f]
            key = " <- ".join(re.sub(r"::h[0-9a-f]{16}|<[^<>]*>", "", f)[:80] for f in own[:2]) or (frames[0][:80] if frames else "?")
            kind = re.search(r"ThreadSanitizer: ([a-z -]+)", blk)
            sym = "tsan:" + (kind.group(1).strip().replace(" ", "_") if kind else "report")
            if (sym, key) in seen:
                continue
            seen.add((sym, key))
            viols.append({"property": "C11", "symptom": sym, "shape": key, "witness": {"mode": "tsan", "programs": [list(x) for x in bt[:5]]}, "detail": blk.strip()[:1500]})
    import shutil
    shutil.rmtree(tmp, ignore_errors=True)
    return viols


def run(tier, seed):
    run = core.Run("C11", tier, seed)
    rng = core.shard_rng(seed, "C11", 0)
    N = core.NCPU
    targets = ["sql." + d for d in core.DIALECTS]
    progs = list(SPECIAL) + corpus.sources()
    n_rel = 200 if tier == "quick" else 4000
    for prof in ("core", "project", "window"):
        progs += [grel.random_program_text(rng, prof) for _ in range(n_rel // 3)]
    base = list(progs)
    for _ in range(300 if tier == "quick" else 6000):
        progs.append(gtext.mutate(rng, rng.choice(base), rng.choice([1, 2])))
    items = [(p, targets[i % len(targets)]) for i, p in enumerate(progs)]
    many = many_names_programs()
    items = many + items
    K = 8 if tier == "quick" else 32
    res = core.run_shards(_history_shard, [dict(items=items[i::N], K=K) for i in range(N)])
    obs = {}
    for v, o in res:
        run.extend(v)
        core.merge_counts(obs, o)
    # threads
    ok_progs = [p for p in base if len(p) < 1500]
    rng.shuffle(ok_progs)
    chunks = []
    n_chunks = 16 if tier == "quick" else 160
    for c in range(n_chunks):
        chunks.append((ok_progs[(c * 25) % len(ok_progs):(c * 25) % len(ok_progs) + 25] + SPECIAL[:6], targets[c % len(targets)]))
    res = core.run_shards(_thread_shard, [dict(chunks=chunks[i::4], threads=16, first_call=(i % 2 == 0)) for i in range(4)], jobs=2)
    for v, o in res:
        run.extend(v)
        core.merge_counts(obs, o)
    cprogs = word_programs(rng, 160 if tier == "quick" else 4000) + [p for p in base if len(p) < 600][:160 if tier == "quick" else 3000]
    res = core.run_shards(_cross_shard, [dict(progs=cprogs[i::N], seed=seed, shard=i) for i in range(N)])
    for v, o in res:
        run.extend(v)
        core.merge_counts(obs, o)
    res = core.run_shards(_files_shard, [dict(dummy=0)])
    for v, o in res:
        run.extend(v)
        core.merge_counts(obs, o)
    if tier != "quick" or os.environ.get("PV_TSAN") == "1":
        tprogs = [(p, targets[i % len(targets)]) for i, p in enumerate(ok_progs[:1500] + SPECIAL)]
        run.extend(tsan_phase(tprogs, obs))
    if tier != "quick" or os.environ.get("PV_MIRI"):
        # Miri's data-race detector over two threads that lex + parse the same source at the same time (the
        # lexer's / parser's lazily initialised statics); a full compile costs ~260 s under Miri and is not run there
        from ..mon import miri
        minfo = {"status": "not_run"}
        obs["miri"] = minfo
        mrng = core.shard_rng(seed, "C11:miri", 0)
        short = sorted({p for p in ok_progs if len(p) <= 120})
        msrcs = mrng.sample(short, min(len(short), 96 if tier != "quick" else 16))
        mv, mres = miri.run_phase("threads", msrcs, 6 if tier != "quick" else 2, minfo, "C11")
        run.extend(mv)
        for s_, r_ in zip(msrcs, mres):
            if r_ == "mismatch":
                run.add_violation("nondeterministic:threads_miri", "threads:" + norm_shape(s_), {"mode": "threads", "src": s_, "target": "sql.generic"},
                                  "two threads parsing the same source under Miri disagreed")
    best = {}
    for v in run.violations:
        k = (v["symptom"], v["shape"])
        if k not in best or (best[k].get("witness") is None and v.get("witness")):
            best[k] = v
    run.violations = list(best.values())
    run.coverage = {
        "evaluations": obs.get("calls", 0) + obs.get("stress_calls", 0) + obs.get("orders", 0) + obs.get("fresh_processes", 0) + obs.get("cross_calls", 0),
        "distinct_nontrivial": obs.get("nontrivial", 0),
        "rule": "each program's sequential model is its outcome (SQL or full error incl. display, RQ JSON, formatted text) as the first call of a fresh process; it is then re-run K times in a long-lived process with failing and panicking calls in between, in two more fresh processes, and from 16 threads released by a barrier (half of the stress runs being the process's first compile); "
                "non-trivial = programs whose outcome is an error text, or that have named arguments / several table instances / query-header arguments (places where hash-map iteration order could show)",
        "repetitions_per_program": K,
        "many_names_programs": len(many),
        "samples": [SPECIAL[0], SPECIAL[2], progs[-1]],
    }
    run.coverage.update(obs)
    run.assumptions = [
        "every std HashMap instance draws fresh keys, so repetition in one process samples hash seeds; detection probability of a two-candidate order dependence is 1 - 2^-(K-1) per program",
        "PRQL_VERSION_OVERRIDE is unset in the workers; colour is forced off (display plain): both are environment inputs, not history",
        "file-order mode compares SQL, RQ and (reason, hints, code) of errors; span source ids legitimately follow insertion order",
        "ThreadSanitizer phase (thorough tier, or PV_TSAN=1): coverage.tsan.status is 'ran' only if the instrumented build succeeded AND its self-test race was reported; 'unavailable' / 'not_effective' mean no verdict from that phase (the other phases still decide). No report on N calls is not a proof of race freedom",
    ]
    if obs.get("overlapping_pairs", 0) == 0:
        run.inconclusive = "no overlapping concurrent calls observed"
    return run


def replay(case):
    if case.get("mode") == "file_order":
        global PROJECTS
        saved = PROJECTS
        PROJECTS = [[tuple(f) for f in case["files"]]]
        try:
            v, _ = _files_shard(0)
        finally:
            PROJECTS = saved
        return v
    if case.get("mode") == "cross":
        v, _ = _cross_shard([case["src"]] * 3, 0, 0)
        return v
    if case.get("mode") == "threads":
        v, _ = _thread_shard([([case["src"]] * 4, case["target"])], 16, True)
        return v
    v, _ = _history_shard([(case["src"], case["target"])], 24)
    return v
