"""C04 — window functions see exactly the documented segment and keep row count."""
from .. import relcheck
from . import c01

PROPS = {"C04"}
ASSUMPTIONS = c01.ASSUMPTIONS + [
    "segment = rows of the enclosing group (partition), ordered by the sort in effect inside the group (or the outer sort when not grouped), restricted by the window bounds; no window = whole partition",
    "rolling:n = rows:(1-n)..0, expanding = rows:..0, rows/range bounds inclusive",
    "rank/rank_dense/row_number/lag/lead follow the sort in effect; values that depend on the relative position of tied rows are unspecified and not judged",
    "value/row-count differences observed in programs of the window profile are attributed to C04",
]


MATRIX_DB = {
    # unique id; partition key k with a NULL group; order key a with ties and a NULL; value c with NULLs
    "t1": {"cols": ["id", "k", "a", "b", "s"], "types": ["int", "int", "int", "float", "text"], "rows": []},
    "t2": {"cols": ["id", "k", "a", "c", "s"], "types": ["int", "int", "int", "int", "text"],
           "rows": [[1, 1, 4, 10, "x"], [2, 1, 1, None, "y"], [3, 1, 2, 7, "x"], [4, 2, 2, 5, "z"], [5, 2, 2, -3, None], [6, 2, 7, 20, "x"],
                    [7, None, None, 1, "y"], [8, 1, 7, 2, "z"], [9, 2, None, 40, "x"], [10, 1, 3, -8, "y"]]},
    "t3": {"cols": ["k", "d", "e"], "types": ["int", "int", "text"], "rows": []},
}


def frame_matrix(tier):
    """Every window shape the documentation names x every window-capable function x sort x partition, as abstract
    programs over MATRIX_DB: no window clause, rows / range with each combination of open, negative, zero and positive
    bounds, rolling:n, expanding.  -> [(db, [programs])]"""
    col = lambda n: ["col", "t2", n]
    bounds_lo = [None, -2, -1, 0, 1]
    bounds_hi = [None, -1, 0, 1, 2]
    frames = [None]
    for kind in ("rows", "range"):
        for lo in bounds_lo:
            for hi in bounds_hi:
                if lo is not None and hi is not None and lo > hi:
                    continue
                frames.append(([kind, lo, hi], [kind, lo, hi]))
    for n in (1, 2, 3):
        frames.append((["rolling", n, None], ["rows", 1 - n, 0]))
    frames.append((["expanding", None, None], ["rows", None, 0]))
    fns = [["agg", "sum", col("c")], ["agg", "min", col("c")], ["agg", "max", col("c")], ["agg", "average", col("c")], ["agg", "count", col("c")],
           ["win", "first", [col("c")]], ["win", "last", [col("c")]], ["win", "lag", [1, col("c")]], ["win", "lead", [1, col("c")]],
           ["win", "rank", [col("a")]], ["win", "rank_dense", [col("a")]], ["win", "row_number", []]]
    sorts = [None, [[False, col("id")]], [[False, col("a")]], [[True, col("a")]], [[False, col("a")], [False, col("id")]]]
    progs = []
    for part in (False, True, "window_outside"):
        for srt in sorts:
            if part == "window_outside" and (srt is None or (tier == "quick" and len(srt) > 1)):
                continue
            for fr in frames:
                if part == "window_outside" and fr is None:
                    continue
                if fr is not None and fr[1][0] == "range" and srt is not None and len(srt) > 1 and (fr[1][1] not in (None, 0) or fr[1][2] not in (None, 0)):
                    continue        # RANGE with an offset needs exactly one order key (KF-C07-7 covers the compiler's side)
                for fn in fns:
                    for placement in (("derive",) if tier == "quick" and fn[1] not in ("sum", "lag", "rank") else ("derive", "filter")):
                        d = {"t": "derive", "items": [["w", fn]]}
                        inner = []
                        if srt is not None:
                            inner.append({"t": "sort", "keys": srt})
                        if fr is None:
                            inner.append(d)
                        else:
                            inner.append({"t": "window", "frame_src": fr[0], "frame": fr[1], "pipe": [d]})
                        main = [{"t": "from", "src": {"k": "table", "name": "t2"}, "alias": None},
                                {"t": "select", "items": [[None, col("id")], [None, col("k")], [None, col("a")], [None, col("c")]]}]
                        if part == "window_outside":
                            # `window <frame> (group k (sort .. | derive ..))`: the frame reaches into the group
                            gp = ([{"t": "sort", "keys": srt}] if srt is not None else []) + [d]
                            main.append({"t": "window", "frame_src": fr[0], "frame": fr[1], "pipe": [{"t": "group", "keys": [col("k")], "pipe": gp}]})
                        elif part:
                            main.append({"t": "group", "keys": [col("k")], "pipe": inner})
                        else:
                            main.extend(inner)
                        if placement == "filter":
                            main.append({"t": "filter", "cond": ["bin", ">=", ["bin", "??", ["col", None, "w"], ["lit", 0]], ["lit", 2]]})
                        progs.append({"lets": [], "main": main, "cuts": []})
    return [(MATRIX_DB, progs)]


def matrix_phase(run, tier, seed):
    from .. import core
    groups = frame_matrix(tier)
    progs = groups[0][1]
    N = core.NCPU
    kws = [dict(prop="C04", seed=seed, shard=i, n_cases=0, profile="window", props={"C01"}, fixed=[(MATRIX_DB, progs[i::N])], reduce_budget=12) for i in range(N)]
    res = core.run_shards(relcheck.explore_shard, kws)
    obs = relcheck.merge_obs([o for _, o in res])
    for v, _ in res:
        run.extend(v)
    run.coverage["frame_matrix"] = {"programs": len(progs), "executions": obs.get("cases", 0), "judged": obs.get("judged", 0), "unspecified": obs.get("unspecified", 0),
                                    "rejected": obs.get("rejected", 0), "engine_unsupported": obs.get("engine_unsupported", 0),
                                    "cells": "12 functions x (no window, rows/range x 22 bound pairs, rolling 1-3, expanding) x 5 sorts x {whole relation, group k (window ..), window .. (group k ..)} x {derive, filter}"}
    run.coverage["evaluations"] = run.coverage.get("evaluations", 0) + obs.get("cases", 0)
    run.coverage["judged_against_model"] = run.coverage.get("judged_against_model", 0) + obs.get("judged", 0)
    run.coverage["distinct_nontrivial"] = run.coverage.get("distinct_nontrivial", 0) + len(obs.get("nontrivial", []))


def run(tier, seed):
    r = c01.explore("C04", {"C01"}, [("window", 1.0)], tier, seed, 900, 40000, ASSUMPTIONS)
    matrix_phase(r, tier, seed)
    for v in r.violations:
        v["property"] = "C04"
    # defects of the relational core that are listed for C01 show up in window programs too
    r.borrow_findings("C01")
    return r


def replay(case):
    vs = relcheck.replay_case(case, {"C01"})
    for v in vs:
        v["property"] = "C04"
    return vs
