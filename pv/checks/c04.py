"""C04 — window functions see exactly the documented segment and keep row count."""
from .. import relcheck
from . import c01

PROPS = {"C04"}
ASSUMPTIONS = c01.ASSUMPTIONS + [
    "segment = rows of the enclosing group (partition), ordered by the sort in effect inside the group (or the outer sort when not grouped), restricted by the window bounds; no window = whole partition",
    "rolling:n = rows:(1-n)..0, expanding = rows:..0, rows/range bounds inclusive",
    "rank/rank_dense/row_number/lag/lead follow the sort in effect; values that depend on the relative position of tied rows are unspecified and not judged",
    "value/row-count differences observed in programs of the window profile are attributed to C04",
]


MATRIX_DB = {
    # unique id; partition key k with a NULL group; order key a with ties and a NULL; value c with NULLs
    "t1": {"cols": ["id", "k", "a", "b", "s"], "types": ["int", "int", "int", "float", "text"], "rows": []},
    "t2": {"cols": ["id", "k", "a", "c", "s"], "types": ["int", "int", "int", "int", "text"],
           "rows": [[1, 1, 4, 10, "x"], [2, 1, 1, None, "y"], [3, 1, 2, 7, "x"], [4, 2, 2, 5, "z"], [5, 2, 2, -3, None], [6, 2, 7, 20, "x"],
                    [7, None, None, 1, "y"], [8, 1, 7, 2, "z"], [9, 2, None, 40, "x"], [10, 1, 3, -8, "y"]]},
    "t3": {"cols": ["k", "d", "e"], "types": ["int", "int", "text"], "rows": []},
}


def frame_matrix(tier):
    """Every window shape the documentation names x every window-capable function x sort x partition, as abstract
    programs over MATRIX_DB: no window clause, rows / range with each combination of open, negative, zero and positive
    bounds, rolling:n, expanding.  -> [(db, [programs])]"""
    col = lambda n: ["col", "t2", n]
    bounds_lo = [None, -2, -1, 0, 1]
    bounds_hi = [None, -1, 0, 1, 2]
    frames = [None]
    for kind in ("rows", "range"):
        for lo in bounds_lo:
            for hi in bounds_hi:
                if lo is not None and hi is not None and lo > hi:
                    continue
                frames.append(([kind, lo, hi], [kind, lo, hi]))
    for n in (1, 2, 3):
        frames.append((["rolling", n, None], ["rows", 1 - n, 0]))
    frames.append((["expanding", None, None], ["rows", None, 0]))
    fns = [["agg", "sum", col("c")], ["agg", "min", col("c")], ["agg", "max", col("c")], ["agg", "average", col("c")], ["agg", "count", col("c")],
           ["win", "first", [col("c")]], ["win", "last", [col("c")]], ["win", "lag", [1, col("c")]], ["win", "lead", [1, col("c")]],
           ["win", "rank", [col("a")]], ["win", "rank_dense", [col("a")]], ["win", "row_number", []]]
    sorts = [None, [[False, col("id")]], [[False, col("a")]], [[True, col("a")]], [[False, col("a")], [False, col("id")]]]
    progs = []
    for part in (False, True, "window_outside"):
        for srt in sorts:
            if part == "window_outside" and (srt is None or (tier == "quick" and len(srt) > 1)):
                continue
            for fr in frames:
                if part == "window_outside" and fr is None:
                    continue
                if fr is not None and fr[1][0] == "range" and srt is not None and len(srt) > 1 and (fr[1][1] not in (None, 0) or fr[1][2] not in (None, 0)):
                    continue        # RANGE with an offset needs exactly one order key (KF-C07-7 covers the compiler's side)
                for fn in fns:
                    for placement in (("derive",) if tier == "quick" and fn[1] not in ("sum", "lag", "rank") else ("derive", "filter")):
                        d = {"t": "derive", "items": [["w", fn]]}
                        inner = []
                        if srt is not None:
                            inner.append({"t": "sort", "keys": srt})
                        if fr is None:
                            inner.append(d)
                        else:
                            inner.append({"t": "window", "frame_src": fr[0], "frame": fr[1], "pipe": [d]})
                        main = [{"t": "from", "src": {"k": "table", "name": "t2"}, "alias": None},
                                {"t": "select", "items": [[None, col("id")], [None, col("k")], [None, col("a")], [None, col("c")]]}]
                        if part == "window_outside":
                            # `window <frame> (group k (sort .. | derive ..))`: the frame reaches into the group
                            gp = ([{"t": "sort", "keys": srt}] if srt is not None else []) + [d]
                            main.append({"t": "window", "frame_src": fr[0], "frame": fr[1], "pipe": [{"t": "group", "keys": [col("k")], "pipe": gp}]})
                        elif part:
                            main.append({"t": "group", "keys": [col("k")], "pipe": inner})
                        else:
                            main.extend(inner)
                        if placement == "filter":
                            main.append({"t": "filter", "cond": ["bin", ">=", ["bin", "??", ["col", None, "w"], ["lit", 0]], ["lit", 2]]})
                        progs.append({"lets": [], "main": main, "cuts": []})
    return [(MATRIX_DB, progs)]


def matrix_phase(run, tier, seed):
    from .. import core
    groups = frame_matrix(tier)
    progs = groups[0][1]
    N = core.NCPU
    kws = [dict(prop="C04", seed=seed, shard=i, n_cases=0, profile="window", props={"C01"}, fixed=[(MATRIX_DB, progs[i::N])], reduce_budget=12) for i in range(N)]
    res = core.run_shards(relcheck.explore_shard, kws)
    obs = relcheck.merge_obs([o for _, o in res])
    for v, _ in res:
        run.extend(v)
    run.coverage["frame_matrix"] = {"programs": len(progs), "executions": obs.get("cases", 0), "judged": obs.get("judged", 0), "unspecified": obs.get("unspecified", 0),
                                    "rejected": obs.get("rejected", 0), "engine_unsupported": obs.get("engine_unsupported", 0),
                                    "cells": "12 functions x (no window, rows/range x 22 bound pairs, rolling 1-3, expanding) x 5 sorts x {whole relation, group k (window ..), window .. (group k ..)} x {derive, filter}"}
    run.coverage["evaluations"] = run.coverage.get("evaluations", 0) + obs.get("cases", 0)
    run.coverage["judged_against_model"] = run.coverage.get("judged_against_model", 0) + obs.get("judged", 0)
    run.coverage["distinct_nontrivial"] = run.coverage.get("distinct_nontrivial", 0) + len(obs.get("nontrivial", []))


def _strip(x):
    if isinstance(x, dict):
        return {k: _strip(v) for k, v in x.items() if k not in ("span", "token", "select_token", "quote_style")}
    if isinstance(x, list):
        return [_strip(i) for i in x]
    return x


def window_specs(ast):
    """every window-function call of a parsed statement -> sorted list of (#partition keys, order directions, frame)"""
    import json
    out = []

    def walk(e):
        if isinstance(e, list):
            for x in e:
                walk(x)
        elif isinstance(e, dict):
            f = e.get("Function")
            if isinstance(f, dict) and isinstance(f.get("over"), dict) and "WindowSpec" in f["over"]:
                ws = f["over"]["WindowSpec"]
                obs_ = ws.get("order_by") or []
                if obs_ and all(isinstance(o.get("expr"), dict) and "Value" in o["expr"] for o in obs_):
                    obs_ = []      # ORDER BY <constant>: what some dialects (Snowflake) require in place of no ordering
                order = [(o.get("options") or {}).get("asc") for o in obs_]
                out.append(json.dumps([len(ws.get("partition_by") or []), order, _strip(ws.get("window_frame"))], sort_keys=True))
            for v in e.values():
                walk(v)
    walk(ast)
    return sorted(out)


def _xdialect_shard(progs, shard, all_dialects):
    """Cross-dialect differential for the dialects SQLite cannot stand in for: the window specifications
    (partition size, order directions, frame) of the statement emitted for dialect D must be those of the
    statement emitted for sql.sqlite, whose executed values the model judges in the matrix phase."""
    from .. import core
    from ..gen import grel
    w = core.Worker()
    viols, obs = [], {"programs": 0, "pairs": 0, "pairs_with_frames": 0, "skipped_unparsed": 0, "skipped_rejected": 0, "dialect_pairs": {}}
    seen = set()
    others = [d for d in core.DIALECTS if d != "sqlite"]
    for i, prog in enumerate(progs):
        src = grel.pp_program(prog)
        ref = w.call({"op": "compile", "src": src, "target": "sql.sqlite"})
        if "sql" not in ref:
            obs["skipped_rejected"] += 1
            continue
        pr = w.call({"op": "sqlparse", "dialect": "sqlite", "sql": ref["sql"], "ast": True})
        if not pr.get("ok"):
            obs["skipped_unparsed"] += 1
            continue
        ref_specs = window_specs(pr["ast"])
        obs["programs"] += 1
        ds = others if all_dialects else [others[(i + shard + k * 5) % len(others)] for k in range(2)]
        for d in ds:
            r = w.call({"op": "compile", "src": src, "target": "sql." + d})
            if "sql" not in r:
                if "panic" in r or "abort" in r:
                    continue          # C12 owns these
                obs["skipped_rejected"] += 1
                continue
            pd = w.call({"op": "sqlparse", "dialect": d, "sql": r["sql"], "ast": True})
            if not pd.get("ok"):
                obs["skipped_unparsed"] += 1
                continue
            specs = window_specs(pd["ast"])
            obs["pairs"] += 1
            obs["dialect_pairs"][d] = obs["dialect_pairs"].get(d, 0) + 1
            if any('"units"' in x for x in ref_specs):
                obs["pairs_with_frames"] += 1
            if specs != ref_specs:
                missing = [x for x in ref_specs if x not in specs]
                extra = [x for x in specs if x not in ref_specs]
                kind = "window_spec_differs"
                fn = [k for k in grel.kinds_of(prog) if "derive" in k or "window" in k]
                shape = d + " :: " + relcheck.shape_of(prog)
                key = (d, tuple(missing[:1]), tuple(extra[:1]))
                viols.append({"property": "C04", "symptom": kind, "shape": shape,
                              "witness": {"xdialect": True, "prog": prog, "dialect": d, "prql": src} if key not in seen else None,
                              "detail": "sql.sqlite has %s, sql.%s has %s || sqlite: %s || %s: %s" % (missing[:2], d, extra[:2], ref["sql"][:300], d, r["sql"][:300])})
                seen.add(key)
    w.close()
    return viols, obs


def xdialect_phase(run, tier, seed):
    from .. import core
    progs = frame_matrix(tier)[0][1]
    if tier == "quick":
        progs = progs[seed % 3::3]
    N = core.NCPU
    res = core.run_shards(_xdialect_shard, [dict(progs=progs[i::N], shard=i, all_dialects=(tier != "quick")) for i in range(N)])
    obs = {}
    for v, o in res:
        run.extend(v)
        core.merge_counts(obs, o)
    run.coverage["cross_dialect_window_specs"] = dict(obs, rule="for each frame-matrix program the statements for other dialects (quick: 2 rotating of 11, thorough: all) must carry the same window specifications (number of partition keys, order directions, frame units and bounds) as the sql.sqlite statement that the matrix phase executes and judges")
    run.coverage["evaluations"] = run.coverage.get("evaluations", 0) + obs.get("pairs", 0)


def run(tier, seed):
    r = run_(tier, seed)
    xdialect_phase(r, tier, seed)
    for v in r.violations:
        v["property"] = "C04"
    return r


def run_(tier, seed):
    r = c01.explore("C04", {"C01"}, [("window", 1.0)], tier, seed, 900, 40000, ASSUMPTIONS)
    matrix_phase(r, tier, seed)
    for v in r.violations:
        v["property"] = "C04"
    # defects of the relational core that are listed for C01 show up in window programs too
    r.borrow_findings("C01")
    return r


def replay(case):
    if case.get("xdialect"):
        vs, _ = _xdialect_shard([case["prog"]], 0, True)
        return [v for v in vs if v["shape"].startswith(case["dialect"] + " ::")]
    vs = relcheck.replay_case(case, {"C01"})
    for v in vs:
        v["property"] = "C04"
    return vs
