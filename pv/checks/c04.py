"""C04 — window functions see exactly the documented segment and keep row count."""
from .. import relcheck
from . import c01

PROPS = {"C04"}
ASSUMPTIONS = c01.ASSUMPTIONS + [
    "segment = rows of the enclosing group (partition), ordered by the sort in effect inside the group (or the outer sort when not grouped), restricted by the window bounds; no window = whole partition",
    "rolling:n = rows:(1-n)..0, expanding = rows:..0, rows/range bounds inclusive",
    "rank/rank_dense/row_number/lag/lead follow the sort in effect; values that depend on the relative position of tied rows are unspecified and not judged",
    "value/row-count differences observed in programs of the window profile are attributed to C04",
]


def run(tier, seed):
    r = c01.explore("C04", {"C01"}, [("window", 1.0)], tier, seed, 900, 40000, ASSUMPTIONS)
    for v in r.violations:
        v["property"] = "C04"
    # defects of the relational core that are listed for C01 show up in window programs too
    r.borrow_findings("C01")
    return r


def replay(case):
    vs = relcheck.replay_case(case, {"C01"})
    for v in vs:
        v["property"] = "C04"
    return vs
