"""C01 — compiled SQL returns the relation the pipeline denotes (values and multiplicities)."""
from .. import core, relcheck

PROPS = {"C01"}
PROFILE = "core"
ASSUMPTIONS = [
    "reference model = pv/ref/model.py (array-of-tuples semantics as documented in the PRQL book); calibrated against upstream result snapshots of the integration queries",
    "engine conventions adopted where PRQL leaves them open: SQLite NULL ordering, numeric result typing (3 == 3.0, booleans 0/1), floats within 1e-9 relative",
    "unspecified outcomes (division by zero, take/row_number across ties or without order, overflow) are not judged and counted separately",
    "frame of `group keys (pipeline)` = key columns followed by the pipeline's output (as the compiler's own RQ frame states)",
    "when the compiler's final frame contains a wildcard (opaque table), result columns are aligned to the model by name",
    "SQL executed on pinned SQLite 3.49.1 for targets sql.sqlite and sql.generic; generic text SQLite cannot parse is engine-unsupported, not a violation",
]


def chinook_phase(run):
    """Ground truth that is not the reference model: upstream's integration queries over the chinook data
    with the result snapshots recorded upstream.  SQL for sql.sqlite, executed on the pinned SQLite."""
    from .. import chinook
    w = core.Worker()
    try:
        w.db_open("ch", chinook.load_statements())
        n = ok = rejected = 0
        for name, prql, expected in chinook.cases():
            n += 1
            r = w.call({"op": "compile", "src": prql, "target": "sql.sqlite", "db": "ch"})
            if "sql" not in r:
                rejected += 1
                run.violations.append({"property": "C01", "symptom": "snapshot_query_not_compiled", "shape": "chinook/" + name,
                                       "witness": {"chinook": name}, "detail": str(r.get("errors") or r.get("panic"))[:300]})
                continue
            ex = r.get("exec", {})
            if "sqlite_error" in ex:
                run.violations.append({"property": "C01", "symptom": "snapshot_sql_error", "shape": "chinook/" + name,
                                       "witness": {"chinook": name}, "detail": ex["sqlite_error"][:300]})
                continue
            got = chinook.render(ex["rows"])
            if chinook.same_text(got, expected):
                ok += 1
            else:
                gl, el = got.split("\n"), expected.split("\n")
                i = next((i for i, (a, b) in enumerate(zip(gl, el)) if a != b), min(len(gl), len(el)))
                run.violations.append({"property": "C01", "symptom": "snapshot_diff", "shape": "chinook/" + name, "witness": {"chinook": name},
                                       "detail": "%d rows vs %d recorded; first difference at row %d: %r vs recorded %r || sql: %s" % (
                                           len(gl), len(el), i, gl[i] if i < len(gl) else None, el[i] if i < len(el) else None, r["sql"][:300])})
        run.coverage["chinook_snapshot_queries"] = n
        run.coverage["chinook_snapshot_matches"] = ok
    finally:
        w.close()


def distinct_matrix(tier):
    """Enumerated: `group KEYS (sort? | take n)` - the shapes the compiler may rewrite to SELECT DISTINCT / DISTINCT ON /
    ROW_NUMBER - x what stands between the group and the final projection (nothing, a filter / sort / derive that reads
    a NON-key column of the chosen row, a filter on a key, a take) x the final projection (exactly the keys, keys
    re-ordered, a subset of the keys, keys + a non-key column, none).  Sorting inside the group is by the unique id,
    so the chosen row is determined."""
    from . import c04
    col = lambda n: ["col", None, n]
    head = [{"t": "from", "src": {"k": "table", "name": "t2"}, "alias": None}]
    pre = {"all": [], "sel4": [{"t": "select", "items": [[None, col("id")], [None, col("k")], [None, col("a")], [None, col("c")]]}],
           "sel2": [{"t": "select", "items": [[None, col("k")], [None, col("a")]]}]}
    keysets = {"k": ["k"], "ka": ["k", "a"], "a": ["a"], "ak": ["a", "k"]}
    inners = {"take1": [{"t": "take", "lo": None, "hi": 1, "plain": True}],
              "sort_take1": [{"t": "sort", "keys": [[False, col("id")]]}, {"t": "take", "lo": None, "hi": 1, "plain": True}],
              "sortdesc_take1": [{"t": "sort", "keys": [[True, col("id")]]}, {"t": "take", "lo": None, "hi": 1, "plain": True}],
              "sort_take2": [{"t": "sort", "keys": [[False, col("id")]]}, {"t": "take", "lo": None, "hi": 2, "plain": True}],
              "sort_take_1_1": [{"t": "sort", "keys": [[False, col("id")]]}, {"t": "take", "lo": 1, "hi": 1, "plain": False}],
              "sort_take_2_2": [{"t": "sort", "keys": [[False, col("id")]]}, {"t": "take", "lo": 2, "hi": 2, "plain": False}]}
    def betweens(nonkey, key):
        return {"none": [], "filter_nonkey": [{"t": "filter", "cond": ["bin", ">", col(nonkey), ["lit", 1]]}],
                "filter_key": [{"t": "filter", "cond": ["bin", ">", col(key), ["lit", 1]]}],
                "sort_nonkey": [{"t": "sort", "keys": [[True, col(nonkey)]]}],
                "derive_filter": [{"t": "derive", "items": [["z", ["bin", "+", col(nonkey), ["lit", 1]]]]}, {"t": "filter", "cond": ["bin", ">", col("z"), ["lit", 2]]}],
                "filter_null": [{"t": "filter", "cond": ["bin", "!=", col(nonkey), ["lit", None]]}]}
    progs = []
    for pn, p0 in pre.items():
        avail = {"all": ["id", "k", "a", "c", "s"], "sel4": ["id", "k", "a", "c"], "sel2": ["k", "a"]}[pn]
        for kn, keys in keysets.items():
            nonkeys = [c for c in avail if c not in keys]
            for inn, inner in inners.items():
                if pn == "sel2" and "sort" in inn:
                    continue          # no unique column left to sort by: the chosen row would be undetermined
                if pn == "sel2" and inn == "take1" and len(keys) < 2:
                    continue
                for bn, btw in betweens(nonkeys[0] if nonkeys else keys[0], keys[0]).items():
                    if not nonkeys and bn in ("filter_nonkey", "sort_nonkey", "derive_filter", "filter_null"):
                        continue
                    finals = {"keys": [[None, col(k)] for k in keys], "keys_rev": [[None, col(k)] for k in reversed(keys)], "first_key": [[None, col(keys[0])]],
                              "none": None}
                    if nonkeys:
                        finals["keys_nonkey"] = [[None, col(k)] for k in keys] + [[None, col(nonkeys[0])]]
                    for fn, fin in finals.items():
                        if fn == "keys_rev" and len(keys) < 2:
                            continue
                        if tier == "quick" and pn == "all" and fn in ("keys_rev", "none") and bn not in ("none", "filter_nonkey"):
                            continue
                        main = head + p0 + [{"t": "group", "keys": [col(k) for k in keys], "pipe": inner}] + btw
                        if fin is not None:
                            main = main + [{"t": "select", "items": fin}]
                        progs.append({"lets": [], "main": main, "cuts": []})
    db = dict(c04.MATRIX_DB)
    return db, progs


def distinct_phase(run, tier, seed):
    db, progs = distinct_matrix(tier)
    N = core.NCPU
    kws = [dict(prop="C01", seed=seed, shard=i, n_cases=0, profile="core", props=PROPS, fixed=[(db, progs[i::N])], reduce_budget=8) for i in range(N)]
    res = core.run_shards(relcheck.explore_shard, kws)
    obs = relcheck.merge_obs([o for _, o in res])
    for v, _ in res:
        run.extend(v)
    feats = obs.get("sql_features", {})
    run.coverage["distinct_matrix"] = {"programs": len(progs), "executions": obs.get("cases", 0), "judged": obs.get("judged", 0), "unspecified": obs.get("unspecified", 0),
                                       "rejected": obs.get("rejected", 0), "statements_with_distinct": feats.get("distinct", 0), "statements_with_row_number": feats.get("row_number", 0),
                                       "cells": "3 input frames x 4 key sets x 6 group bodies (take 1, sort | take 1 / 2 / 1..1 / 2..2) x 6 steps between (none, filter / sort / derive on a non-key column, filter on a key, null test) x 5 final projections"}
    run.coverage["evaluations"] = run.coverage.get("evaluations", 0) + obs.get("cases", 0)
    run.coverage["judged_against_model"] = run.coverage.get("judged_against_model", 0) + obs.get("judged", 0)


def run(tier, seed):
    r = run_(tier, seed)
    distinct_phase(r, tier, seed)
    return r


def run_(tier, seed):
    r = explore("C01", PROPS, [("core", 0.75), ("boundary_nowin", 1.5), ("shared", 0.5)], tier, seed, 900, 24000, ASSUMPTIONS)
    chinook_phase(r)
    r.assumptions = list(r.assumptions) + [
        "chinook phase: the %s upstream integration queries that run on SQLite must reproduce the result snapshots recorded upstream (text equal, floats up to 1e-9 relative); this also calibrates the harness's execution path against data that is not mine" % r.coverage.get("chinook_snapshot_queries", "?")]
    return r


def explore(prop, props, profiles, tier, seed, n_quick, n_thorough, assumptions, rule_extra="", rotate=()):
    run = core.Run(prop, tier, seed)
    n = n_quick if tier == "quick" else n_thorough
    N = core.NCPU
    kws = []
    for (profile, frac) in profiles:
        for i in range(N):
            kws.append(dict(prop=prop, seed=seed, shard=i, n_cases=max(20, int(n * frac)), profile=profile, props=props, rotate=rotate))
    res = core.run_shards(relcheck.explore_shard, kws)
    obs = relcheck.merge_obs([o for _, o in res])
    for v, _ in res:
        run.extend(v)
    finish_cov(run, obs)
    run.assumptions = assumptions
    run.coverage["profiles"] = [p for p, _ in profiles]
    if rule_extra:
        run.coverage["rule"] += " " + rule_extra
    return run


def finish_cov(run, obs):
    nt = obs.pop("nontrivial")
    bg = obs.pop("bigrams")
    samples = obs.pop("samples")
    run.coverage = {
        "evaluations": obs.get("cases", 0),
        "distinct_nontrivial": len(nt),
        "rule": "cases = random well-scoped relational-core programs x database instances (normal/empty/NULL-heavy/duplicate-heavy) x {sqlite, generic}; "
                "distinct non-trivial = distinct (transform-kind sequence, #CTEs, #sub-queries) triples among judged executions whose SQL has at least one CTE or sub-query and whose result is non-empty",
        "judged_against_model": obs.get("judged", 0),
        "transform_bigrams_covered": len(bg),
        "samples": samples,
    }
    for k, v in obs.items():
        if k not in ("cases",):
            run.coverage[k] = v
    run.assumptions = ASSUMPTIONS
    if obs.get("judged", 0) < 50:
        run.inconclusive = "too few executions judged (%d)" % obs.get("judged", 0)


def replay(case):
    if "chinook" in case:
        r = core.Run("C01", "replay", 0)
        chinook_phase(r)
        return [v for v in r.violations if v["witness"].get("chinook") == case["chinook"]]
    return relcheck.replay_case(case, PROPS)
