"""C01 — compiled SQL returns the relation the pipeline denotes (values and multiplicities)."""
from .. import core, relcheck

PROPS = {"C01"}
PROFILE = "core"
ASSUMPTIONS = [
    "reference model = pv/ref/model.py (array-of-tuples semantics as documented in the PRQL book); calibrated against upstream result snapshots of the integration queries",
    "engine conventions adopted where PRQL leaves them open: SQLite NULL ordering, numeric result typing (3 == 3.0, booleans 0/1), floats within 1e-9 relative",
    "unspecified outcomes (division by zero, take/row_number across ties or without order, overflow) are not judged and counted separately",
    "frame of `group keys (pipeline)` = key columns followed by the pipeline's output (as the compiler's own RQ frame states)",
    "when the compiler's final frame contains a wildcard (opaque table), result columns are aligned to the model by name",
    "SQL executed on pinned SQLite 3.49.1 for targets sql.sqlite and sql.generic; generic text SQLite cannot parse is engine-unsupported, not a violation",
]


def chinook_phase(run):
    """Ground truth that is not the reference model: upstream's integration queries over the chinook data
    with the result snapshots recorded upstream.  SQL for sql.sqlite, executed on the pinned SQLite."""
    from .. import chinook
    w = core.Worker()
    try:
        w.db_open("ch", chinook.load_statements())
        n = ok = rejected = 0
        for name, prql, expected in chinook.cases():
            n += 1
            r = w.call({"op": "compile", "src": prql, "target": "sql.sqlite", "db": "ch"})
            if "sql" not in r:
                rejected += 1
                run.violations.append({"property": "C01", "symptom": "snapshot_query_not_compiled", "shape": "chinook/" + name,
                                       "witness": {"chinook": name}, "detail": str(r.get("errors") or r.get("panic"))[:300]})
                continue
            ex = r.get("exec", {})
            if "sqlite_error" in ex:
                run.violations.append({"property": "C01", "symptom": "snapshot_sql_error", "shape": "chinook/" + name,
                                       "witness": {"chinook": name}, "detail": ex["sqlite_error"][:300]})
                continue
            got = chinook.render(ex["rows"])
            if chinook.same_text(got, expected):
                ok += 1
            else:
                gl, el = got.split("\n"), expected.split("\n")
                i = next((i for i, (a, b) in enumerate(zip(gl, el)) if a != b), min(len(gl), len(el)))
                run.violations.append({"property": "C01", "symptom": "snapshot_diff", "shape": "chinook/" + name, "witness": {"chinook": name},
                                       "detail": "%d rows vs %d recorded; first difference at row %d: %r vs recorded %r || sql: %s" % (
                                           len(gl), len(el), i, gl[i] if i < len(gl) else None, el[i] if i < len(el) else None, r["sql"][:300])})
        run.coverage["chinook_snapshot_queries"] = n
        run.coverage["chinook_snapshot_matches"] = ok
    finally:
        w.close()


def run(tier, seed):
    r = explore("C01", PROPS, [("core", 0.75), ("boundary_nowin", 1.5), ("shared", 0.5)], tier, seed, 900, 24000, ASSUMPTIONS)
    chinook_phase(r)
    r.assumptions = list(r.assumptions) + [
        "chinook phase: the %s upstream integration queries that run on SQLite must reproduce the result snapshots recorded upstream (text equal, floats up to 1e-9 relative); this also calibrates the harness's execution path against data that is not mine" % r.coverage.get("chinook_snapshot_queries", "?")]
    return r


def explore(prop, props, profiles, tier, seed, n_quick, n_thorough, assumptions, rule_extra="", rotate=()):
    run = core.Run(prop, tier, seed)
    n = n_quick if tier == "quick" else n_thorough
    N = core.NCPU
    kws = []
    for (profile, frac) in profiles:
        for i in range(N):
            kws.append(dict(prop=prop, seed=seed, shard=i, n_cases=max(20, int(n * frac)), profile=profile, props=props, rotate=rotate))
    res = core.run_shards(relcheck.explore_shard, kws)
    obs = relcheck.merge_obs([o for _, o in res])
    for v, _ in res:
        run.extend(v)
    finish_cov(run, obs)
    run.assumptions = assumptions
    run.coverage["profiles"] = [p for p, _ in profiles]
    if rule_extra:
        run.coverage["rule"] += " " + rule_extra
    return run


def finish_cov(run, obs):
    nt = obs.pop("nontrivial")
    bg = obs.pop("bigrams")
    samples = obs.pop("samples")
    run.coverage = {
        "evaluations": obs.get("cases", 0),
        "distinct_nontrivial": len(nt),
        "rule": "cases = random well-scoped relational-core programs x database instances (normal/empty/NULL-heavy/duplicate-heavy) x {sqlite, generic}; "
                "distinct non-trivial = distinct (transform-kind sequence, #CTEs, #sub-queries) triples among judged executions whose SQL has at least one CTE or sub-query and whose result is non-empty",
        "judged_against_model": obs.get("judged", 0),
        "transform_bigrams_covered": len(bg),
        "samples": samples,
    }
    for k, v in obs.items():
        if k not in ("cases",):
            run.coverage[k] = v
    run.assumptions = ASSUMPTIONS
    if obs.get("judged", 0) < 50:
        run.inconclusive = "too few executions judged (%d)" % obs.get("judged", 0)


def replay(case):
    if "chinook" in case:
        r = core.Run("C01", "replay", 0)
        chinook_phase(r)
        return [v for v in r.violations if v["witness"].get("chinook") == case["chinook"]]
    return relcheck.replay_case(case, PROPS)
