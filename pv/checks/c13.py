"""C13 — errors are located inside the source and point at the offending text."""
import re
from .. import core, corpus
from ..gen import grel

PREFIX = {
    "ascii": "abc",
    "2byte": "éñü",
    "3byte": "中文字",
    "4byte": "\U0001f600\U0001f680",
    "combining": "éä",
}
EXOTIC_NL = re.compile("[\x0b\x0c\x85  ]|\r(?!\n)")

# error injections: name -> (function(base) -> (source, offending token or None), target or None)
def inj_lex_amp(base):
    return base.rstrip("\n") + "\nfilter zz & 1\n", "&"


def inj_unclosed_string(base):
    return base.rstrip("\n") + "\nderive {zq = \"abc}\n", None


def inj_stray_paren(base):
    return base.rstrip("\n") + "\nselect )\n", ")"


def inj_missing_operand(base):
    return base.rstrip("\n") + "\nderive {zq = 1 + }\n", None


def inj_unknown_name(base):
    return base.rstrip("\n") + "\nselect {zzc = 1}\nfilter zzq_unknown > 1\n", "zzq_unknown"


def inj_unknown_func(base):
    return base.rstrip("\n") + "\nderive {zq = (nosuchfn_zz 1)}\n", "nosuchfn_zz"


def inj_bad_named_arg(base):
    return base.rstrip("\n") + "\nsort zzarg:2 {zza}\n", None


def inj_take_string(base):
    return base.rstrip("\n") + "\ntake \"x\"\n", "\"x\""


def inj_sql_stage(base):
    return base.rstrip("\n") + "\nselect {zzd = 1}\nderive {zq = (date.to_text \"%Y\" zzd)}\n", None


def _pos(base, tail):
    return base.rstrip("\n") + "\nselect {zzc = 1, zzd = 2}\n" + tail + "\n", "zzq_unknown"


def inj_unknown_in_tuple(base):
    return _pos(base, "select {zzc, zzq_unknown, zzd}")


def inj_unknown_in_case(base):
    return _pos(base, "derive {zq = case [zzc == 1 => zzq_unknown, true => 0]}")


def inj_unknown_in_sstring(base):
    return _pos(base, "derive {zq = s\"COALESCE({zzc}, {zzq_unknown})\"}")


def inj_unknown_in_fstring(base):
    return _pos(base, "derive {zq = f\"a{zzc}b{zzq_unknown}c\"}")


def inj_unknown_in_fstring_escapes(base):
    # escape sequences in the same literal, before and after the interpolation: the text the parser re-reads is
    # shorter than the source text
    return _pos(base, "derive {zq = f\"a\\t\\t{zzc}\\n{zzq_unknown}\\t\\\\x\"}")


def inj_unknown_in_fstring_after_escapes(base):
    return _pos(base, "derive {zq = f\"{zzq_unknown}\\t\\t\\u{41}{zzc}\"}")


def inj_unknown_in_sstring_escapes(base):
    return _pos(base, "derive {zq = s\"REGEXP_REPLACE({zzq_unknown}, '\\\\s+\\\\d', '')\"}")


def inj_unknown_in_fstring_quotes(base):
    return _pos(base, "derive {zq = f'it\\'s {zzc} \"q\" {zzq_unknown}'}")


def inj_unknown_in_join_cond(base):
    return _pos(base, "join zzj = [{zk = 1}] (zzq_unknown == zzj.zk)")


def inj_unknown_in_group_body(base):
    return _pos(base, "group {zzc} (aggregate {zn = sum zzq_unknown})")


def inj_unknown_in_named_arg(base):
    return base.rstrip("\n") + "\nselect {zzc = 1, zzd = 2}\nwindow rolling:zzq_unknown (derive {zs = sum zzd})\n", "zzq_unknown"


def inj_unknown_in_func_arg(base):
    return _pos(base, "derive {zq = (math.round 2 (zzc + zzq_unknown))}")


def inj_unknown_in_sort(base):
    return _pos(base, "sort {zzc, -zzq_unknown}")


def inj_type_error_via_param(base):
    return "let zz_lim = x -> x\n" + base.rstrip("\n") + "\ntake (zz_lim \"x\")\n", None


def inj_ml_too_many_args(base):
    # the offending call spans several lines: location.end must be on the last of them
    return base.rstrip("\n") + "\ntake (\n  1\n) 2 3\n", None


def inj_ml_take_tuple(base):
    return base.rstrip("\n") + "\ntake {\n  1,\n  2,\n}\n", None


def inj_ml_unclosed_brace(base):
    return base.rstrip("\n") + "\nderive {\n  zq = 1,\n  zr = (2\n}\n", None


def inj_ml_bad_join_side(base):
    return base.rstrip("\n") + "\njoin side:(\n  1 +\n  2\n) zz_other (==zzk)\n", None


INJECTIONS = {
    "unknown_in_fstring_escapes": inj_unknown_in_fstring_escapes, "unknown_in_fstring_after_escapes": inj_unknown_in_fstring_after_escapes,
    "unknown_in_sstring_escapes": inj_unknown_in_sstring_escapes, "unknown_in_fstring_quotes": inj_unknown_in_fstring_quotes,
    "unknown_in_tuple": inj_unknown_in_tuple, "unknown_in_case": inj_unknown_in_case, "unknown_in_sstring": inj_unknown_in_sstring, "unknown_in_fstring": inj_unknown_in_fstring,
    "unknown_in_join_cond": inj_unknown_in_join_cond, "unknown_in_group_body": inj_unknown_in_group_body, "unknown_in_named_arg": inj_unknown_in_named_arg,
    "unknown_in_func_arg": inj_unknown_in_func_arg, "unknown_in_sort": inj_unknown_in_sort, "type_error_via_param": inj_type_error_via_param,
    "ml_too_many_args": inj_ml_too_many_args, "ml_take_tuple": inj_ml_take_tuple, "ml_unclosed_brace": inj_ml_unclosed_brace, "ml_bad_join_side": inj_ml_bad_join_side,
    "lex_amp": inj_lex_amp, "unclosed_string": inj_unclosed_string, "stray_paren": inj_stray_paren,
    "missing_operand": inj_missing_operand, "unknown_name": inj_unknown_name, "unknown_func": inj_unknown_func,
    "bad_named_arg": inj_bad_named_arg, "take_string": inj_take_string, "sql_stage": inj_sql_stage,
}


def with_prefix(src, pclass, where):
    p = PREFIX[pclass]
    if where == "comment_before":
        return "# %s\n" % p + src
    if where == "string_before":
        return "let zz_pre = \"%s\"\n" % p + src
    if where == "ident_before":
        return "let `%s zz` = 1\n" % p + src
    if where == "comment_after":
        return src + "# %s\n" % p
    if where == "same_line":
        # a string literal on the same line as (and before) the injected error line's content
        lines = src.rstrip("\n").split("\n")
        # put a harmless derive with the prefix in the line before the last injected line, joined by ` | `
        lines[-1] = "derive {zz_p = \"%s\"} | " % p + lines[-1]
        return "\n".join(lines) + "\n"
    return src


WHERES = ["comment_before", "string_before", "ident_before", "comment_after", "same_line"]


def line_col(text, off_chars):
    """(line, col) 0-based of a character offset, lines split on \\n (CRLF counts as one terminator)."""
    before = text[:off_chars]
    line = before.count("\n")
    col = len(before) - (before.rfind("\n") + 1)
    return line, col


def check_error(e, files, crlf):
    """files: {source_id: (path, text)}. Returns (failed clauses under best unit, unit)."""
    if not (e.get("reason") or "").strip():
        return ["empty_reason"], None
    span = e.get("span")
    if not span:
        return [], None
    m = re.match(r"(\d+):(\d+)-(\d+)$", span)
    if not m:
        return ["span_format"], None
    sid, a, b = int(m.group(1)), int(m.group(2)), int(m.group(3))
    if sid not in files:
        return ["unknown_source_id"], None
    path, text = files[sid]
    results = {}
    raw = text.encode("utf-8")
    for unit in ("char", "byte"):
        fails = []
        n = len(text) if unit == "char" else len(raw)
        if not (0 <= a <= b <= n):
            fails.append("out_of_bounds")
            results[unit] = (fails, None)
            continue
        if unit == "byte":
            try:
                ca = len(raw[:a].decode("utf-8"))
                cb = len(raw[:b].decode("utf-8"))
            except UnicodeDecodeError:
                fails.append("not_char_boundary")
                results[unit] = (fails, None)
                continue
        else:
            ca, cb = a, b
        loc = e.get("location")
        if loc and not EXOTIC_NL.search(text):
            want = (list(line_col(text, ca)), list(line_col(text, cb)))
            got = (list(loc["start"]), list(loc["end"]))
            if got != want:
                # the position just after a line terminator can be written (line+1, 0) or
                # (line, length of the line with its terminator): compare as offsets instead
                starts = [0]
                for i, ch in enumerate(text):
                    if ch == "\n":
                        starts.append(i + 1)

                def off(lc):
                    ln, col = lc
                    if not (0 <= ln < len(starts)):
                        return None
                    end = starts[ln + 1] if ln + 1 < len(starts) else len(text)
                    return starts[ln] + col if starts[ln] + col <= end else None
                if (off(got[0]), off(got[1])) != (ca, cb):
                    fails.append("location")
        disp = e.get("display")
        if disp is not None and not EXOTIC_NL.search(text):
            ln = line_col(text, ca)[0]
            lines = text.split("\n")
            the_line = lines[ln].rstrip("\r") if ln < len(lines) else ""
            # ariadne renders tabs as spaces
            # (the renderer expands tabs to its own tab stops: compare with white space removed)
            if the_line.strip() and re.sub(r"\s+", "", the_line) not in re.sub(r"\s+", "", disp):
                fails.append("display_line")
            if len(files) > 1 and path and path not in disp:
                fails.append("display_file")
        results[unit] = (fails, text[ca:cb])
    best = min(("char", "byte"), key=lambda u: len(results[u][0]))
    return results[best][0], best, results[best][1], results


def _covers(text, span, unit, token):
    m = re.match(r"(\d+):(\d+)-(\d+)$", span)
    a, b = int(m.group(2)), int(m.group(3))
    if unit == "byte":
        raw = text.encode("utf-8")
        try:
            a, b = len(raw[:a].decode("utf-8")), len(raw[:b].decode("utf-8"))
        except UnicodeDecodeError:
            return False
    if not (0 <= a <= b <= len(text)):
        return False
    ta = text.index(token)
    tb = ta + len(token)
    spanned = text[a:b]
    return (a <= ta and tb <= b) or (ta <= a and b <= tb) or (spanned.strip() == "" and (b == ta or a == tb or (a <= ta <= b)))


def judge(w, sources, root, main_path, target, token, crlf=False):
    """sources: ordered [(path, text)]; returns (violations-symptoms, n_errors, info)."""
    if len(sources) == 1 and sources[0][0] == "":
        req = {"op": "compile", "src": sources[0][1], "display": "plain"}
        if target:
            req["target"] = target
        r = w.call(req)
        files = {1: ("", sources[0][1])}
    else:
        req = {"op": "tree_compile", "sources": [[p, t] for p, t in sources], "main_path": main_path, "display": "plain"}
        if target:
            req["target"] = target
        r = w.call(req)
        files = {i + 1: (p, t) for i, (p, t) in enumerate(sources)}
    out = []
    info = {"errors": 0, "with_span": 0, "unit": {}}
    if "panic" in r:
        out.append(("panic:" + core.panic_sig(r["panic"]), r["panic"].get("msg", "")[:200]))
        return out, info, r
    errs = r.get("errors")
    if errs is None:
        info["no_error"] = 1
        return out, info, r
    if len(errs) == 0:
        out.append(("no_errors_in_err", ""))
    for e in errs:
        info["errors"] += 1
        res = check_error(e, files, crlf)
        fails, unit = res[0], res[1]
        if e.get("span"):
            info["with_span"] += 1
            if len(res) > 2 and res[2] and "\n" in res[2]:
                info["multiline_spans"] = info.get("multiline_spans", 0) + 1
            info["unit"][unit or "none"] = info["unit"].get(unit or "none", 0) + 1
        # sources with multi-byte text: is this exactly the listed defect (the span is a BYTE span that is
        # rendered as a character span)?  That is the case when, read as bytes, the span is in bounds, on
        # character boundaries and covers the offending token, and only the derived location / quoted line
        # disagree.  Anything else in such a source is reported under its own symptom.
        if e.get("span") and len(res) > 3:
            sid0 = int(e["span"].split(":")[0])
            text0 = files.get(sid0, ("", ""))[1]
            if not text0.isascii():
                bf = res[3]["byte"][0]
                cf = res[3]["char"][0]
                tok_b = tok_c = True
                if token is not None and len(errs) == 1 and text0.count(token) == 1:
                    tok_b = _covers(text0, e["span"], "byte", token)
                    tok_c = _covers(text0, e["span"], "char", token)
                if not (not cf and tok_c):
                    if set(bf) <= {"location", "display_line"} and tok_b and (bf or not tok_c or cf):
                        out.append(("loc:byte_offsets_as_chars", "span=%s location=%s reason=%r (as bytes the span covers the token; location/display are computed as if it were characters)" % (
                            e.get("span"), e.get("location"), e.get("reason", "")[:80])))
                        continue
        if fails:
            out.append(("loc:" + "+".join(fails), "span=%s location=%s reason=%r spanned=%r" % (e.get("span"), e.get("location"), e.get("reason", "")[:80], (res[2] if len(res) > 2 else None))))
        elif token is not None and e.get("span") and len(res) > 2 and len(errs) == 1:
            sid = int(e["span"].split(":")[0])
            text = files[sid][1]
            if text.count(token) == 1:
                ta = text.index(token)
                tb = ta + len(token)
                m = re.match(r"(\d+):(\d+)-(\d+)$", e["span"])
                a, b = int(m.group(2)), int(m.group(3))
                if unit == "byte":
                    raw = text.encode("utf-8")
                    a, b = len(raw[:a].decode("utf-8")), len(raw[:b].decode("utf-8"))
                spanned = text[a:b]
                ok = (a <= ta and tb <= b) or (ta <= a and b <= tb) or (spanned.strip() == "" and (b == ta or a == tb or (a <= ta <= b)))
                if not ok:
                    out.append(("loc:span_misses_token", "span=%s spanned=%r offending token %r at %d-%d (unit %s)" % (e.get("span"), spanned[:80], token, ta, tb, unit)))
    return out, info, r


def _shard(seed, shard, bases, n):
    rng = core.shard_rng(seed, "C13", shard)
    w = core.Worker()
    viols, seen = [], set()
    obs = {"cases": 0, "errors": 0, "with_span": 0, "no_error": 0, "cells": set(), "unit": {}}
    inj_names = sorted(INJECTIONS)
    for i in range(n):
        base = rng.choice(bases)
        inj = inj_names[i % len(inj_names)]
        pclass = rng.choice(list(PREFIX))
        where = rng.choice(WHERES)
        layout = rng.choice(["single", "single", "project", "project_nonroot"])
        crlf = rng.random() < 0.1
        if layout == "project_nonroot" and re.search(r"(?m)^\s*(let|func|module|type|import|prql|@|into)\b|\binto\b|#!|\n[ \t]*\n\s*\S", base):
            layout = "project"
        src, token = INJECTIONS[inj](base)
        if layout == "project_nonroot":
            body = src.rstrip("\n")
            if where == "same_line":
                body = with_prefix(body + "\n", pclass, where).rstrip("\n")
            src = "let broken = (\n" + body + "\n)\n"
            if where != "same_line":
                src = with_prefix(src, pclass, where)
        else:
            src = with_prefix(src, pclass, where)
        if crlf:
            src = src.replace("\n", "\r\n")
        target = "sql.generic" if inj != "sql_stage" else "sql.generic"
        if layout == "single":
            sources, root, main_path = [("", src)], None, []
        elif layout == "project":
            helper = "let helper_tbl = (from zz_h | select {h = 1})\n# %s\n" % PREFIX[pclass]
            sources, root, main_path = [("helpers.prql", helper), ("Project.prql", src)], ".", []
            if rng.random() < 0.45:
                # errors in SEVERAL files of one compilation (the parser reports the syntax errors of every file):
                # each must be located in its own file's text.  The files differ in length and line count
                pad = "".join("# helper line %d %s\n" % (k, PREFIX[pclass] if k % 2 else "") for k in range(rng.randint(0, 7)))
                bad = rng.choice(["let other_tbl = (from zz_o | filter (x > ))\n", "let other_tbl = (from zz_o | select {a, })) \n", "let other_tbl = (from zz_o | derive y = 1 & 2)\n",
                                  "let other_fn = func x -> x * ) 3\n", "let other_tbl = (from zz_o | take \"unclosed)\n"])
                sources[0] = ("helpers.prql", pad + helper + bad)
                layout = "project_two_errors"
                if rng.random() < 0.4:
                    pad3 = "".join("# third file, line %d\n" % k for k in range(rng.randint(0, 5)))
                    sources.append(("extras.prql", pad3 + "let extra_tbl = (from zz_e | sort {-})\n" + ("let more = [\n" if rng.random() < 0.5 else "")))
                token = None          # several errors: the single-token clause does not apply
            if rng.random() < 0.5:
                sources.reverse()
        else:
            # error lives in the non-root file: the erroneous pipeline becomes a declaration there
            mod = src
            rootsrc = "from helpers.broken\n"
            sources, root, main_path = [("Project.prql", rootsrc), ("helpers.prql", mod)], ".", []
            if rng.random() < 0.5:
                sources.reverse()
            if inj in ("unknown_name", "unknown_func", "take_string", "sql_stage", "bad_named_arg"):
                pass
        out, info, r = judge(w, sources, root, main_path, target, token, crlf)
        obs["cases"] += 1
        obs["errors"] += info["errors"]
        obs["with_span"] += info["with_span"]
        obs["no_error"] += info.get("no_error", 0)
        obs["multiline_spans"] = obs.get("multiline_spans", 0) + info.get("multiline_spans", 0)
        for k, v in info["unit"].items():
            obs["unit"][k] = obs["unit"].get(k, 0) + v
        if info["errors"]:
            obs["cells"].add((inj, pclass, layout))
        for (sym, det) in out:
            ascii_only = all(t.isascii() for _, t in sources)
            # with errors in several files the erroneous constructs are the helper files' own (parser errors), whatever was injected into the root
            shape = "%s/%s/%s/%s%s" % (("multi_" + inj) if layout == "project_two_errors" else inj, "ascii" if ascii_only else "multibyte", where if pclass != "ascii" else "-", layout, "/crlf" if crlf else "")
            key = (sym, shape)
            v = {"property": "C13", "symptom": sym, "shape": shape,
                 "witness": {"sources": sources, "main_path": main_path, "target": target, "token": token, "crlf": crlf, "shape": shape} if key not in seen else None,
                 "detail": det}
            seen.add(key)
            viols.append(v)
    w.close()
    obs["cells"] = list(obs["cells"])
    return viols, obs


def _natural_shard(items):
    """Errors nobody planted: whatever the compiler reports for these sources is held to the
    generic clauses (reason, bounds, boundaries, location, display); no offending token is known."""
    w = core.Worker()
    viols, seen = [], set()
    obs = {"natural_cases": 0, "natural_errors": 0, "natural_with_span": 0, "natural_multiline_spans": 0}
    for origin, src in items:
        out, info, r = judge(w, [("", src)], None, [], "sql.generic", None, False)
        obs["natural_cases"] += 1
        obs["natural_errors"] += info["errors"]
        obs["natural_with_span"] += info["with_span"]
        obs["natural_multiline_spans"] += info.get("multiline_spans", 0)
        for (sym, det) in out:
            if sym.startswith("panic:"):
                # a panic is C12's business (and is reported there with its own attribution)
                obs["natural_panics_left_to_C12"] = obs.get("natural_panics_left_to_C12", 0) + 1
                continue
            shape = "natural:%s/%s" % (origin, "ascii" if src.isascii() else "multibyte")
            key = (sym, shape)
            viols.append({"property": "C13", "symptom": sym, "shape": shape,
                          "witness": {"sources": [("", src)], "main_path": [], "target": "sql.generic", "token": None, "crlf": False, "shape": shape} if key not in seen else None,
                          "detail": det})
            seen.add(key)
    w.close()
    return viols, obs


def natural_sources(tier, seed):
    from ..gen import gnest, gtext
    rng = core.shard_rng(seed, "C13", 4242)
    items = [("gnest", src) for _, src in gnest.two_level()]
    base = [s for s in corpus.sources() if len(s) < 1500]
    n = 3000 if tier == "quick" else 60000
    for _ in range(n):
        items.append(("mutant", gtext.mutate(rng, rng.choice(base), rng.choice([1, 1, 2]))))
    return items


def run(tier, seed):
    run = core.Run("C13", tier, seed)
    rng = core.shard_rng(seed, "C13", 999)
    w = core.Worker()
    bases = ["from t\n", "from employees\nfilter age > 3\nderive {x = age + 1}\n"]
    cands = [s for s in corpus.sources() if len(s) < 600 and "\t" not in s]
    cands += [grel.random_program_text(rng, p) for p in ("core", "project") for _ in range(60)]
    for s in cands:
        r = w.call({"op": "compile", "src": s, "target": "sql.generic"})
        if "sql" in r and not re.search(r"(?m)^\s*prql ", s):
            bases.append(s)
    w.close()
    N = core.NCPU
    n = 1200 if tier == "quick" else 20000
    res = core.run_shards(_shard, [dict(seed=seed, shard=i, bases=bases, n=n) for i in range(N)])
    obs = {"cells": set()}
    for v, o in res:
        run.extend(v)
        obs["cells"] |= set(map(tuple, o.pop("cells")))
        core.merge_counts(obs, o)
    nat = natural_sources(tier, seed)
    res = core.run_shards(_natural_shard, [dict(items=nat[i::N]) for i in range(N)])
    for v, o in res:
        run.extend(v)
        core.merge_counts(obs, o)
    best = {}
    for v in run.violations:
        k = (v["symptom"], v["shape"])
        if k not in best or (best[k].get("witness") is None and v.get("witness")):
            best[k] = v
    run.violations = list(best.values())
    cells = obs.pop("cells")
    run.coverage = {
        "evaluations": obs.get("cases", 0) + obs.get("natural_cases", 0),
        "distinct_nontrivial": len(cells),
        "rule": "case = valid base program + one injected error (lexical / syntactic / name-resolution / type / SQL-stage) + prefix content (ASCII, 2/3/4-byte, combining) placed in a comment, string, backtick identifier, after the error or on the error's line, in a single file or a 2-file project (error in root or non-root file, or syntax errors in two or three files of one compilation), optionally CRLF; "
                "plus a 'natural' phase: every expression kind in every syntactic slot (G-nest) and token-level mutants of corpus programs, whose errors (whatever they are) are held to the generic clauses without a known token; "
                "distinct non-trivial = distinct (error class, prefix class, layout) cells for which the compiler returned at least one error",
        "base_programs": len(bases),
        "samples": [],
    }
    run.coverage.update(obs)
    run.coverage["samples"] = [with_prefix(INJECTIONS["unknown_name"](bases[1])[0], "3byte", "string_before"),
                               with_prefix(INJECTIONS["stray_paren"](bases[0])[0], "4byte", "same_line")]
    run.assumptions = [
        "an error's span is accepted if ONE unit (characters, the documented one, or bytes) makes all clauses true: bounds, char boundaries, location = independently computed (line, col), display quotes the line (and names the file in a project), and — for single-error cases where the generator knows the offending token — the spanned text overlaps that token",
        "(line, col) are 0-based, lines end at \\n (\\r\\n counts as one terminator); sources with other Unicode line terminators are excluded from the location clause",
        "source ids are assigned in SourceTree insertion order starting at 1 (as SourceTree::new does)",
    ]
    return run


def replay(case):
    w = core.Worker()
    out, info, r = judge(w, [tuple(x) for x in case["sources"]], None, case.get("main_path", []), case.get("target"), case.get("token"), case.get("crlf", False))
    w.close()
    return [{"property": "C13", "symptom": s, "shape": case.get("shape", ""), "witness": case, "detail": d} for s, d in out]
