"""C15 — staged compilation through JSON equals one-shot compile.
The worker's `staged` op runs source -> PL -> JSON -> PL -> RQ -> JSON -> RQ -> SQL with the
public json::* functions and compares values (PartialEq), re-serialised bytes and final output."""
import re
from .. import core, corpus
from ..gen import grel, gfeat, gnest

FEATURE_PROGRAMS = [
    "from t | select {i = 9223372036854775807, j = -9223372036854775807, f = 0.1, g = 1e300, h = 5e-324, k = 1.7976931348623157e308}",
    "from t | select {s = \"\\u{1F600} é \\\\ \\\" '\", r = r\"raw\\n\", d = @2020-01-01, t = @12:30:00, ts = @2020-01-01T12:30:00Z, iv = 3days}",
    "from t | select {a = f\"{x}-{y}\", b = s\"COUNT({x})\", c = [1, 2, 3], d = {p = 1, q = 2}}",
    "let f = a b:2 -> a + b\nfrom t | derive {x = (f 1), y = (f 1 b:3)}",
    "module m {\n  let x = 1\n  let g = a -> a * 2\n}\nfrom t | derive {y = m.g m.x}",
    "type my_int = int\nlet c <my_int> = 5\nfrom t | derive {y = c}",
    "@{binding_strength=1}\nlet h = a -> a\nfrom t | derive {y = (h a)}",
    "from t | derive {x = case [a > 1 => \"a\", a == null => null, true => \"c\"], y = a ?? 0, z = a | in 1..5}",
    "from t | window rows:-1..1 (derive {m = average a}) | window range:..0 (sort b | derive {n = sum a})",
    "from t | group {a, b} (sort {-c} | take 2) | join side:left u (==a) | append v | loop (filter a < 3)",
    "from t | select {x = $1, y = $name}",
    "from t | sort {-a, +b} | take 2..5 | select !{c}",
    "prql version:\"0.13\" target:sql.postgres\nfrom t | take 1",
    "from (read_csv \"a.csv\") | join (read_parquet \"b.parquet\") (==id)",
    "from t | select {n = -a, m = !b, p = a ** 2 ** 3, q = a // 2 % 3, r = a..b}",
    "#! doc comment\nlet documented = 1\nfrom t | derive {x = documented}",
    "from t | derive {x = (a | math.round 2), y = text.upper s, z = date.to_text \"%Y\" d}",
    "from [{a = 1, b = null}, {a = 2, b = \"x\"}] | filter b != null",
    "let t2 = (from t | select {a})\nlet t3 <[{a = int}]> = (from t2)\nfrom t3 | into t4\nfrom t4",
]


def _shard(items):
    w = core.Worker()
    viols = []
    obs = {"chains": 0, "ok_path": 0, "error_path": 0, "direct_panics": 0, "pl_json_bytes": 0, "rq_json_bytes": 0,
           "unstable_skipped": 0, "error_stages": {}, "nontrivial": set()}
    for (src, target, fmt) in items:
        req = {"op": "staged", "src": src, "format": fmt, "signature": False}
        if target:
            req["target"] = target
        r = w.call(req)
        obs["chains"] += 1
        if "abort" in r or "watchdog" in r:
            continue
        issues = r.get("issues", [])
        st = r.get("staged", {})
        if "sql" in st:
            obs["ok_path"] += 1
            obs["nontrivial"].add(hash(src) & 0xffffffff)
        elif "errors" in st:
            obs["error_path"] += 1
            stg = st.get("stage", "?")
            obs["error_stages"][stg] = obs["error_stages"].get(stg, 0) + 1
        if "panic" in r.get("direct", {}):
            obs["direct_panics"] += 1
        o = r.get("obs") or {}
        obs["pl_json_bytes"] += o.get("pl_json_len", 0)
        obs["rq_json_bytes"] += o.get("rq_json_len", 0)
        if issues:
            # error text that is unstable under repetition (hash order) is C11's business
            stable = True
            for _ in range(6):
                r2 = w.call(req)
                if sorted(i["kind"] for i in r2.get("issues", [])) != sorted(i["kind"] for i in issues) or r2.get("direct") != r.get("direct"):
                    stable = False
                    break
            if not stable:
                obs["unstable_skipped"] += 1
                continue
            reason = ""
            if st.get("errors") and st.get("stage") in ("to_pl", "to_rq", "from_pl", "from_rq"):
                # the JSON hop itself failed: name why (e.g. the deserialiser's recursion limit)
                reason = ":" + re.sub(r"\d+", "N", st["errors"][0].get("reason", "?"))[:50].replace(" ", "_")
            for i in issues:
                viols.append({"property": "C15", "symptom": i["kind"], "shape": st.get("stage", "-") + reason + ":" + (target or "none"),
                              "witness": {"src": src, "target": target, "format": fmt},
                              "detail": "direct=%s staged=%s" % (str(r.get("direct"))[:300], str(st)[:300])})
    w.close()
    obs["nontrivial"] = list(obs["nontrivial"])
    return viols, obs


def run(tier, seed):
    run = core.Run("C15", tier, seed)
    rng = core.shard_rng(seed, "C15", 0)
    srcs = list(FEATURE_PROGRAMS) + corpus.sources() + [src for _, src in gfeat.programs() if len(src) < 3000]
    srcs += [src for _, src in (gnest.two_level()[seed % 3::3] if tier == "quick" else gnest.programs(3))]
    # type expressions (bare `[]`, `func`, open tuples ..), statement pairs and hostile identifiers in every position:
    # PL nodes whose JSON form has optional / payload-less parts
    srcs += [src for _, src in gnest.type_programs()] + [src for _, src in gnest.stmt_programs()] + [src for _, src in gnest.ident_programs()]
    n_rel = 1200 if tier == "quick" else 6000
    for prof in ("core", "window", "project"):
        srcs += [grel.random_program_text(rng, prof) for _ in range(n_rel // 3)]
    targets = [None] + ["sql." + d for d in core.DIALECTS]
    items = []
    for i, s in enumerate(srcs):
        if tier == "quick":
            ts = [targets[i % len(targets)], targets[(i * 7 + 3) % len(targets)], "sql.sqlite"]
        else:
            ts = targets
        for t in dict.fromkeys(ts):
            items.append((s, t, (i % 3 == 0)))
    N = core.NCPU
    res = core.run_shards(_shard, [dict(items=items[i::N]) for i in range(N)])
    tot = {"nontrivial": set()}
    for v, o in res:
        run.extend(v)
        tot["nontrivial"] |= set(o.pop("nontrivial"))
        core.merge_counts(tot, o)
    nt = tot.pop("nontrivial")
    run.coverage = {
        "evaluations": tot.get("chains", 0),
        "distinct_nontrivial": len(nt),
        "rule": "one evaluation = one (source, target, format) chain through both JSON round trips compared with direct compile; "
                "distinct non-trivial = distinct sources for which the whole staged chain reached SQL (so both PL and RQ documents were round-tripped and the output compared)",
        "samples": [{"src": s, "target": t, "format": f} for (s, t, f) in items[:2] + items[-2:]],
    }
    run.coverage.update(tot)
    run.assumptions = [
        "value equality = the types' own PartialEq; byte equality of re-serialised JSON",
        "error path compares (kind, code, reason, hints, span); display/location are produced only by compile()'s composition step and are not part of the comparison",
        "cases whose outcome is not stable under repetition in one process (hash-order dependent error text) are skipped and counted — they belong to C11",
    ]
    return run


def replay(case):
    v, _ = _shard([(case["src"], case.get("target"), case.get("format", False))])
    return v
