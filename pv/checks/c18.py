"""C18 — dialect chosen by option, then header, then generic."""
import re
from .. import core, corpus

DIALECT_SENSITIVE = [
    "from t | take 5",
    "from t | take 3..7",
    "from t | sort a | take 2..",
    "from `My Table` | select {`Col A`, b}",
    "from t | select {x = a / b, y = a // b}",
    "from t | filter (name ~= \"^a\")",
    "from t | select {s = f\"{a} and {b}\"}",
    "from t | select {d = @2020-01-01, ts = @2020-01-01T10:00:00}",
    "from t | group a (sort b | take 1)",
    "from t | select !{a}",
    "from t | derive {x = a ** 2, y = a % 3}",
    "from t | select {c = (a | as int)}",
    "from a | append b",
    "from a | remove b",
    "from a | intersect b",
    "from t | group {a} (aggregate {n = count this, s = sum b})",
    "from t | derive {s = text.lower name, l = text.length name}",
    "from t | filter (text.contains \"x\" name) | select {name}",
    "from t | derive {d = date.to_text \"%Y\" created}",
    "from t | derive {x = math.round 2 a, y = math.pow a 2}",
    "from t | select {a, b} | sort {-a} | take 10 | filter b > 1",
    "from t | derive {r = rank a} | filter r < 3",
    "from t | window rolling:3 (derive {m = average a})",
    "from t | select {i = 5days, j = 2hours}",
    "let x = (from t | take 5)\nfrom x | join y (==id) | take 2",
    "from t | select {`select`, `from`, `order`}",
    "from t | select {b = a == null, c = a != null}",
    "from t | derive {x = case [a > 1 => \"big\", true => \"small\"]}",
    "from t | filter (a | in 1..5)",
    "from [{a = 1, b = \"x\"}, {a = 2, b = \"y\"}]",
    "from t | loop (filter a < 5 | select {a = a + 1})",
    "from t | select {x = a ?? 0}",
    "from t | select {x = s\"VERSION()\"}",
    "from t | distinct_placeholder" ,
    "from t | group {a, b} (take 1)",
    "from t | select {a} | group a (take 1)",
    "from e=employees | select {e.name} | take 1..3",
    "from t | derive {x = std.text.starts_with \"a\" name}",
    "from t | aggregate {c = count_distinct a, s = stddev a}",
    "from t | derive {d = @2020-01-01 + 3days}",
    "from t | sort {a, -b} | select {a}",
    "from t | take 0",
    "from t | derive x = (a | math.abs) | filter x >= 1.5e2",
    # relations given as raw SQL: the compiler parses the text to infer its columns, and identifier quoting
    # ([a], `a`, "a") is read differently by different SQL grammars
    "from s\"SELECT [a], [b] FROM t\" | derive c = a + 1",
    "from s\"SELECT `a`, `b` FROM t\" | derive c = a + 1",
    "from s\"SELECT \\\"a\\\", \\\"b\\\" FROM t\" | derive c = a + 1",
    "from s\"SELECT a, b FROM t\" | derive c = a + 1 | filter c > 2",
    "from s\"SELECT [a], [b] FROM t\"",
    "from s\"SELECT `a` FROM t\" | join u (==a) | select {u.x}",
    "from s\"SELECT [a] FROM t\" | filter a > 1",
    "from t | join side:left y = s\"SELECT [id], [v] FROM u\" (t.id == y.id) | select {t.id, y.v}",
    "let r = s\"SELECT TOP 3 [a] FROM t\"\nfrom r | derive b = a * 2",
    "from s\"SELECT a::int AS a, b FROM t\" | derive c = a + 1",
    "from s\"SELECT a, b FROM t LIMIT 3\" | take 2",
    "from (read_csv \"a.csv\") | take 2",
]

OPT_UNKNOWN = "sql.nosuch"
HDR_UNKNOWN = "sql.nosuch"


HEADER_FORMS = ["prql target:%s\n", "prql version:\"0.13\" target:%s\n", "# a comment before the header\nprql target:%s\n", "\n\nprql target:%s\n",
                "prql target:%s version:\"0.13\"\n", "prql target:%s\n\n# comment after\n"]
_FORM = [0]          # header form used for the program being judged (rotated per program)


def header(h):
    return "" if h is None else HEADER_FORMS[_FORM[0]] % h


def has_header(src):
    return re.search(r"(?m)^\s*prql\b", src) is not None


def outkey(r):
    """What is compared: SQL text, or the error's (reason, hints) list."""
    if "sql" in r:
        return ("sql", r["sql"])
    if "errors" in r:
        return ("err", tuple((e.get("reason"), tuple(e.get("hints") or [])) for e in (r["errors"] or [])))
    if "panic" in r:
        return ("panic", r["panic"].get("loc"))
    if "bad_target" in r:
        return ("bad_target",)
    if "abort" in r:
        return ("abort", r["abort"].get("kind"))
    if "watchdog" in r:
        return ("watchdog",)
    return ("other", str(r)[:100])


def judge(w, src, fmt=False):
    """Full (option x header) matrix for one header-free program.
    Returns (violations, observations)."""
    D = ["sql." + d for d in core.DIALECTS]
    viols = []
    obs = {"cells": set(), "programs": 1}

    def comp(body, opt, want_rq=False):
        req = {"op": "compile", "src": body, "format": fmt, "signature": False}
        if opt is not None:
            req["target"] = opt
        if want_rq:
            req["rq"] = True
        return w.call(req)

    # the header must be a pure addition: only programs that parse both with and without it are judged
    for body in (src, header("sql.generic") + src):
        r = w.call({"op": "entry", "entry": "pl", "src": body})
        if not r.get("ok"):
            return [], {"cells": set(), "programs": 0, "skipped_unparseable": 1}
    base = {}
    for d in D:
        base[d] = outkey(comp(src, d))
    r_none = comp(src, None, want_rq=True)
    base_none = outkey(r_none)
    rq_accept0 = "rqcheck" in r_none
    if any(k[0] in ("watchdog", "abort") for k in list(base.values()) + [base_none]):
        return [], {"cells": set(), "programs": 0, "skipped_abort_or_watchdog": 1}
    distinct_sql = len({v for v in base.values()})
    obs["dialect_sensitive"] = 1 if distinct_sql > 1 else 0
    obs["accepted_somewhere"] = 1 if any(v[0] == "sql" for v in base.values()) else 0

    def bad(kind, o, h, got, want):
        # C18 is about dependence on (option, header).  If either side is not even
        # stable under repetition (hash-order dependent error text: C11's business)
        # the cell is not judged.
        if o != OPT_UNKNOWN and kind != "resolver_acceptance_depends_on_target":
            outs_a = {outkey(comp(header(h) + src, o)) for _ in range(6)}
            ref_o = o if (o in D) else (h if h in D else "sql.generic")
            outs_b = {outkey(comp(src, ref_o)) for _ in range(6)}
            if len(outs_a) > 1 or len(outs_b) > 1:
                obs["unstable_cells_skipped"] = obs.get("unstable_cells_skipped", 0) + 1
                return
        viols.append({"symptom": kind, "shape": "o=%s,h=%s" % (_cls(o), _cls(h)),
                      "witness": {"src": src, "option": o, "header": h, "format": fmt, "header_form": _FORM[0]},
                      "detail": "got %r want %r" % (_short(got), _short(want))})

    # neither -> generic
    obs["cells"].add(("none", "absent"))
    if base_none != base["sql.generic"]:
        bad("default_not_generic", None, None, base_none, base["sql.generic"])
    for o in [None, "sql.any"]:
        for h in D + ["sql.any", HDR_UNKNOWN, None]:
            if o is None and h is None:
                continue
            r = comp(header(h) + src, o, want_rq=(o is None))
            k = outkey(r)
            obs["cells"].add((_cls(o), _cls(h)))
            if h in D:
                if k != base[h]:
                    bad("header_not_honoured", o, h, k, base[h])
            elif h == HDR_UNKNOWN:
                if k[0] == "sql":
                    bad("unknown_header_accepted", o, h, k, "an error")
            else:
                if k != base["sql.generic"]:
                    bad("default_not_generic", o, h, k, base["sql.generic"])
            if o is None:
                # resolver acceptance must not depend on the target (an unknown name is an
                # error of the SQL back end, which is where the target is looked up; the
                # resolver's verdict on the program is the same as without the header)
                acc = "rqcheck" in r
                if ("rq_panic" not in r) and acc != rq_accept0:
                    bad("resolver_acceptance_depends_on_target", o, h, "accepted" if acc else "rejected",
                        "accepted" if rq_accept0 else "rejected")
    for o in D:
        for h in D + ["sql.any"]:
            # (the diagonal option == header is a cell like any other: both name the same dialect)
            k = outkey(comp(header(h) + src, o))
            obs["cells"].add((_cls(o), _cls(h)))
            if k != base[o]:
                bad("option_not_overriding_header", o, h, k, base[o])
        # (option, unknown header): "an explicit option overrides a different header" — the
        # header's name is never looked up, so the output is the option's
        k = outkey(comp(header(HDR_UNKNOWN) + src, o))
        obs["cells"].add((_cls(o), "unknown"))
        if k != base[o]:
            bad("option_not_overriding_unknown_header", o, HDR_UNKNOWN, k, base[o])
        obs["cells"].add((_cls(o), "absent"))
    r = comp(src, OPT_UNKNOWN)
    obs["cells"].add(("unknown", "absent"))
    if outkey(r)[0] != "bad_target":
        bad("unknown_option_accepted", OPT_UNKNOWN, None, outkey(r), "an error")
    return viols, obs


def _cls(x):
    if x is None:
        return "absent"
    if x in (OPT_UNKNOWN,):
        return "unknown"
    return x


def _short(k):
    s = repr(k)
    return s if len(s) < 300 else s[:300] + "…"


def _shard(srcs, fmt_every):
    w = core.Worker()
    viols, obs = [], {"cells": set(), "programs": 0}
    for i, s in enumerate(srcs):
        _FORM[0] = i % len(HEADER_FORMS)
        v, o = judge(w, s, fmt=(i % fmt_every == 0))
        o["header_form_%d" % _FORM[0]] = o.get("programs", 0)
        viols.extend(v)
        cells = obs["cells"] | o.pop("cells")
        core.merge_counts(obs, o)
        obs["cells"] = cells
    w.close()
    return viols, obs


def _mainpath_shard(pipes):
    """The relation to compile is named through `main_path` (the CLI's MAIN_PATH argument / pl_to_rq_tree):
    `let rel = (P)`, `P | into rel`, and the implicit `main` named explicitly.  Header-only and option-only
    compilations must agree for every dialect, an unknown header must be rejected, no header means generic."""
    w = core.Worker()
    viols, seen = [], set()
    obs = {"mainpath_programs": 0, "mainpath_cells": 0, "mainpath_dialect_sensitive": 0}
    D = ["sql." + d for d in core.DIALECTS]

    def tc(text, path, target=None):
        req = {"op": "tree_compile", "sources": [["", text]], "main_path": path, "format": False, "signature": False}
        if target is not None:
            req["target"] = target
        return outkey(w.call(req))
    for P in pipes:
        forms = [("let", "let rel = (%s)" % P, ["rel"]), ("into", P + "\ninto rel", ["rel"]), ("main", P, ["main"]),
                 ("let_among", "let other = (from o | take 1)\nlet rel = (%s)\nlet third = (from rel | take 2)" % P, ["rel"])]
        for fname, body, path in forms:
            by_opt = {d: tc(body, path, d) for d in D}
            if not any(v[0] == "sql" for v in by_opt.values()):
                continue
            obs["mainpath_programs"] += 1
            if len(set(by_opt.values())) > 1:
                obs["mainpath_dialect_sensitive"] += 1
            cells = [(d, tc("prql target:%s\n" % d + body, path), by_opt[d], "header_not_honoured") for d in D]
            cells.append(("absent", tc(body, path), by_opt["sql.generic"], "default_not_generic"))
            cells.append(("sql.mssql/opt sql.postgres", tc("prql target:sql.mssql\n" + body, path, "sql.postgres"), by_opt["sql.postgres"], "option_not_overriding_header"))
            unk = tc("prql target:sql.nosuchdialect\n" + body, path)
            obs["mainpath_cells"] += len(cells) + 1
            if unk[0] == "sql":
                cells.append(("sql.nosuchdialect", unk, ("err", "unknown target"), "unknown_header_accepted"))
            for h, got, want, kind in cells:
                if got != want and not (kind == "unknown_header_accepted" and got[0] != "sql"):
                    key = (kind, fname)
                    viols.append({"property": "C18", "symptom": kind, "shape": "main_path:%s h=%s" % (fname, h if kind != "header_not_honoured" else "sql.X"),
                                  "witness": {"mainpath": True, "pipe": P, "form": fname} if key not in seen else None,
                                  "detail": "main_path %r, header %s: got %r, want %r" % (path, h, str(got)[:200], str(want)[:200])})
                    seen.add(key)
    w.close()
    return viols, obs


def programs(tier, seed):
    rng = core.shard_rng(seed, "C18", 0)
    progs = [p for p in DIALECT_SENSITIVE]
    corp = [s for s in corpus.sources() if not has_header(s) and len(s) < 1500]
    rng.shuffle(corp)
    n = 400 if tier == "quick" else len(corp)
    progs += corp[:n]
    try:
        from ..gen import grel
        k = 150 if tier == "quick" else 4000
        progs += [grel.random_program_text(rng) for _ in range(k)]
    except ImportError:
        pass
    return progs


def run(tier, seed):
    run = core.Run("C18", tier, seed)
    progs = programs(tier, seed)
    N = core.NCPU
    res = core.run_shards(_shard, [dict(srcs=progs[i::N], fmt_every=4) for i in range(N)])
    obs = {"cells": set(), "programs": 0}
    for v, o in res:
        run.extend(v)
        cells = obs["cells"] | o.pop("cells")
        core.merge_counts(obs, o)
        obs["cells"] = cells
    mp = [p for p in DIALECT_SENSITIVE if "\n" not in p and not p.startswith("let ")]
    res = core.run_shards(_mainpath_shard, [dict(pipes=mp[i::N]) for i in range(N)])
    mobs = {}
    for v, o in res:
        run.extend(v)
        core.merge_counts(mobs, o)
    cells = obs.pop("cells")
    obs.update(mobs)
    run.coverage = {
        "evaluations": obs.get("programs", 0) * (len(cells) - 12),
        "distinct_nontrivial": obs.get("dialect_sensitive", 0),
        "rule": "each distinct header-free program is compiled under the whole (option x header) matrix; evaluations = programs x judged compile cells; "
                "non-trivial = programs whose SQL differs between at least two of the 12 dialects (otherwise the choice of dialect is unobservable)",
        "programs": obs.get("programs", 0),
        "main_path_phase": {k: v for k, v in mobs.items()},
        "programs_accepted_by_some_dialect": obs.get("accepted_somewhere", 0),
        "matrix_cells_covered": len(cells),
        "matrix_cells_expected": 2 * 15 - 1 + 12 * 12 + 12 + 12 + 1,
        "skipped_abort_or_watchdog": obs.get("skipped_abort_or_watchdog", 0),
        "skipped_unparseable": obs.get("skipped_unparseable", 0),
        "unstable_cells_skipped": obs.get("unstable_cells_skipped", 0),
        "samples": progs[:3] + progs[-2:],
    }
    if len(cells) < run.coverage["matrix_cells_expected"]:
        run.inconclusive = "matrix not fully covered: %d cells" % len(cells)
    run.assumptions = [
        "outputs compared with signature_comment off (the signature legitimately echoes only an option target)",
        "errors compared on (reason, hints): spans shift when a header line is prepended",
        "(explicit option, unknown header) is read as 'an explicit option overrides a different header': the header's name is not looked up and the option's SQL is emitted; "
        "'an unknown target name is an error' is judged where that name is the one in force (unknown option; unknown header with no option or sql.any)",
        "an unknown header does not change the resolver's verdict (pl_to_rq) on the program: the name is an error of the SQL stage",
        "header value sql.any is treated as 'no dialect chosen' (generic), as Target::from_str documents",
    ]
    return run


def replay(case):
    if case.get("mainpath"):
        v, _ = _mainpath_shard([case["pipe"]])
        return [x for x in v if ("main_path:" + case["form"] + " ") in x["shape"]]
    w = core.Worker()
    _FORM[0] = case.get("header_form", 0)
    v, _ = judge(w, case["src"], fmt=case.get("format", False))
    w.close()
    return v
