"""C05 — result columns are exactly the final frame: names, count and order."""
from .. import relcheck
from . import c01

PROPS = {"C05"}
ASSUMPTIONS = c01.ASSUMPTIONS + [
    "names are unique per frame: a later column of the same name un-names the earlier one; only columns named in the final frame are compared by name",
    "column order is judged positionally except after a group whose pipeline keeps rows (order undocumented): there columns are matched by name",
    "the result is also compared with the compiler's own final frame (RQ relation.columns) when that frame has no wildcard",
    "a result column named by a generated pattern (_expr_N / table_N) that is neither in the frame nor a user name is reported as a leaked helper column",
    "for sql.duckdb / sql.snowflake / sql.bigquery the result columns are those the SQL scope monitor derives from the parsed statement and the schema (stars expanded, `EXCLUDE` / `EXCEPT` lists removed); statements with a relation whose columns are not fully known are not judged",
    "SQLite's `name:N` renaming of duplicate sub-query result names is treated as an engine artifact",
]


def star_matrix(tier):
    """Enumerated for the dialects with `* EXCLUDE (..)`: one SELECT with two or three stars (a join of opaque
    tables, the default frame) where the relation behind the first / second / both stars is a sub-query that
    carries a column the final frame does not have (derived, used by a later filter or not, then excluded)
    x what splits the query (take n, take a..b, filter | take) x one or two joins x inner / left."""
    col = lambda n, q=None: ["col", q, n]
    progs = []
    splits = {"take": [{"t": "take", "lo": None, "hi": 5, "plain": True}], "range": [{"t": "take", "lo": 1, "hi": 6, "plain": False}],
              "filter_take": [{"t": "filter", "cond": ["bin", ">", col("id"), ["lit", 0]]}, {"t": "take", "lo": None, "hi": 5, "plain": True}]}
    for hide_main in (False, True):
        for hide_join in (False, True):
            for use_later in (False, True):
                for sname, split in splits.items():
                    for njoins in (1, 2):
                        for side in ("inner", "left"):
                            for excl_mode in ("one_step", "two_steps"):
                                if not (hide_main or hide_join):
                                    if use_later or excl_mode == "two_steps":
                                        continue
                                if excl_mode == "two_steps" and not (hide_main and hide_join):
                                    continue
                                main = [{"t": "from", "src": {"k": "table", "name": "t1"}, "alias": None}]
                                if hide_main:
                                    main.append({"t": "derive", "items": [["x", ["bin", "+", col("a"), ["lit", 1]]]]})
                                main += split
                                if hide_join:
                                    jp = [{"t": "from", "src": {"k": "table", "name": "t2"}, "alias": None},
                                          {"t": "derive", "items": [["y", ["bin", "+", col("c"), ["lit", 1]]]]},
                                          {"t": "take", "lo": None, "hi": 4, "plain": True}]
                                    jsrc = {"k": "pipe", "pipe": jp}
                                else:
                                    jsrc = {"k": "table", "name": "t2"}
                                main.append({"t": "join", "src": jsrc, "alias": "j", "side": side, "explicit_side": side != "inner",
                                             "cond": ["bin", "==", col("id", "t1"), col("id", "j")]})
                                if njoins == 2:
                                    main.append({"t": "join", "src": {"k": "table", "name": "t3"}, "alias": "j2", "side": "inner",
                                                 "cond": ["bin", "==", col("k", "t1"), col("k", "j2")]})
                                hidden = ([col("x")] if hide_main else []) + ([col("y", "j")] if hide_join else [])
                                if use_later:
                                    for h in hidden:
                                        main.append({"t": "filter", "cond": ["bin", ">", h, ["lit", -1000]]})
                                if hidden:
                                    if excl_mode == "one_step":
                                        main.append({"t": "exclude", "cols": hidden})
                                    else:
                                        for h in hidden:
                                            main.append({"t": "exclude", "cols": [h]})
                                progs.append({"lets": [], "main": main, "cuts": []})
    # small tables: every take covers its input, so the model never has to call a row choice unspecified
    db = {"t1": {"cols": ["id", "k", "a", "b", "s"], "types": ["int", "int", "int", "float", "text"], "rows": [[1, 1, 4, 0.5, "x"], [2, 1, None, 1.5, "y"], [3, 2, 2, None, "x"]]},
          "t2": {"cols": ["id", "k", "a", "c", "s"], "types": ["int", "int", "int", "int", "text"], "rows": [[1, 1, 4, 10, "x"], [2, 1, 1, None, "y"], [4, 2, 2, 5, "z"]]},
          "t3": {"cols": ["k", "d", "e"], "types": ["int", "int", "text"], "rows": [[1, 2, "p"], [2, 5, "q"], [2, 6, "r"]]}}
    return db, progs


def repeat_matrix(tier):
    """Enumerated: the same SOURCE column more than once in the final frame of a SELECT over one, two (join,
    self join) or three relations - plain twice, with another column in between, once plain and once under a new
    name, through a later derive - x inner / left x what precedes the projection (nothing, filter, sort | take)."""
    col = lambda n, q=None: ["col", q, n]
    progs = []
    pats = {
        "x_z_x": lambda a, b: {"t": "select", "items": [[None, col("a", a)], [None, col("c", b)], [None, col("a", a)]]},
        "x_x": lambda a, b: {"t": "select", "items": [[None, col("a", a)], [None, col("a", a)]]},
        "x_z_n=x": lambda a, b: {"t": "select", "items": [[None, col("a", a)], [None, col("c", b)], ["n", col("a", a)]]},
        "n=x_z_x": lambda a, b: {"t": "select", "items": [["n", col("a", a)], [None, col("c", b)], [None, col("a", a)]]},
        "id_id_id=": lambda a, b: {"t": "select", "items": [[None, col("id", a)], [None, col("id", b)], ["id", col("id", a)]]},
        "n=x_m=x": lambda a, b: {"t": "select", "items": [["n", col("a", a)], ["m", col("a", a)], [None, col("c", b)]]},
        "bx_ax_bx": lambda a, b: {"t": "select", "items": [[None, col("k", b)], [None, col("k", a)], [None, col("k", b)]]},
    }
    pres = {"none": [], "filter": [{"t": "filter", "cond": ["bin", ">", col("id", "a"), ["lit", 0]]}],
            "sort_take": [{"t": "sort", "keys": [[False, col("id", "a")]]}, {"t": "take", "lo": None, "hi": 5, "plain": True}]}
    for side in ("inner", "left"):
        for second in ("t2", "t1"):
            for three in (False, True):
                for pn, pre in pres.items():
                    for name, pat in pats.items():
                        main = [{"t": "from", "src": {"k": "table", "name": "t1"}, "alias": "a"},
                                {"t": "join", "src": {"k": "table", "name": second}, "alias": "b", "side": side, "explicit_side": side != "inner",
                                 "cond": ["bin", "==", col("id", "a"), col("id", "b")]}]
                        if three:
                            main.append({"t": "join", "src": {"k": "table", "name": "t3"}, "alias": "d", "side": "inner", "cond": ["bin", "==", col("k", "a"), col("k", "d")]})
                        main += pre
                        bcol = "c" if second == "t2" else "b"
                        t = pat("a", "b")
                        # the second relation's own column (c of t2 / b of t1)
                        t = {"t": "select", "items": [[n, (["col", "b", bcol] if e == ["col", "b", "c"] else e)] for n, e in t["items"]]}
                        progs.append({"lets": [], "main": main + [t], "cuts": []})
                    # through a later derive: select {a.x, b.z} | derive {a = a.x}
                    progs.append({"lets": [], "main": main[:len(main)] + [{"t": "select", "items": [[None, col("a", "a")], [None, col(bcol, "b")]]},
                                                                         {"t": "derive", "items": [["a", col("a", "a")]]}], "cuts": []})
    db = {"t1": {"cols": ["id", "k", "a", "b", "s"], "types": ["int", "int", "int", "float", "text"], "rows": [[1, 1, 4, 0.5, "x"], [2, 1, None, 1.5, "y"], [3, 2, 2, None, "x"]]},
          "t2": {"cols": ["id", "k", "a", "c", "s"], "types": ["int", "int", "int", "int", "text"], "rows": [[1, 1, 4, 10, "x"], [2, 1, 1, None, "y"], [4, 2, 2, 5, "z"]]},
          "t3": {"cols": ["k", "d", "e"], "types": ["int", "int", "text"], "rows": [[1, 2, "p"], [2, 5, "q"], [2, 6, "r"]]}}
    return db, progs


def matrix_phase(run, tier, seed):
    from .. import core
    db2, progs2 = repeat_matrix(tier)
    N = core.NCPU
    kws = [dict(prop="C05", seed=seed, shard=i, n_cases=0, profile="project", props=PROPS, fixed=[(db2, progs2[i::N])], reduce_budget=6,
                rotate=relcheck.STATIC_DIALECTS) for i in range(N)]
    res = core.run_shards(relcheck.explore_shard, kws)
    obs2 = relcheck.merge_obs([o for _, o in res])
    for v, _ in res:
        run.extend(v)
    run.coverage["repeat_matrix"] = {"programs": len(progs2), "executions": obs2.get("cases", 0), "judged": obs2.get("judged", 0), "rejected": obs2.get("rejected", 0),
                                     "model_error": obs2.get("model_error", 0), "unspecified": obs2.get("unspecified", 0),
                                     "cells": "8 ways of having one source column twice in the final frame x {join, self join} x {2, 3 relations} x inner/left x {nothing, filter, sort | take} before the projection"}
    run.coverage["evaluations"] = run.coverage.get("evaluations", 0) + obs2.get("cases", 0)
    db, progs = star_matrix(tier)
    kws = [dict(prop="C05", seed=seed, shard=i, n_cases=0, profile="project", props=PROPS, fixed=[(db, progs[i::N])], reduce_budget=6,
                dialects=relcheck.STATIC_DIALECTS) for i in range(N)]
    res = core.run_shards(relcheck.explore_shard, kws)
    obs = relcheck.merge_obs([o for _, o in res])
    for v, _ in res:
        run.extend(v)
    run.coverage["star_matrix"] = {"programs": len(progs), "executions": obs.get("cases", 0), "static_frames_judged": obs.get("static_frames_judged", 0),
                                   "with_exclusion": obs.get("static_frames_with_exclusion", 0),
                                   "with_exclusion_and_several_stars": obs.get("static_frames_with_exclusion_and_several_stars", 0),
                                   "rejected": obs.get("rejected", 0), "static_open": obs.get("static_open", 0), "model_error": obs.get("model_error", 0),
                                   "cells": "hidden column behind the first / second / both stars x used later or not x {take n, take a..b, filter | take} x 1-2 joins x inner/left x exclusion in one or two steps; sql.duckdb, sql.snowflake, sql.bigquery"}
    run.coverage["evaluations"] = run.coverage.get("evaluations", 0) + obs.get("cases", 0)


def run(tier, seed):
    r = explore_(tier, seed)
    matrix_phase(r, tier, seed)
    return r


def explore_(tier, seed):
    return c01.explore("C05", PROPS, [("project", 0.6), ("core", 0.2), ("sort", 0.2), ("shared", 0.2)], tier, seed, 1350, 60000, ASSUMPTIONS, rotate=relcheck.STATIC_DIALECTS,
                       rule_extra="every program is additionally compiled for one of sql.duckdb / sql.snowflake / sql.bigquery (rotating); those statements are not executed: their result columns are computed from the parsed statement (`* EXCLUDE/EXCEPT (..)` applied) over the database schema and compared with the frame")


def replay(case):
    return relcheck.replay_case(case, PROPS)
