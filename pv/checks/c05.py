"""C05 — result columns are exactly the final frame: names, count and order."""
from .. import relcheck
from . import c01

PROPS = {"C05"}
ASSUMPTIONS = c01.ASSUMPTIONS + [
    "names are unique per frame: a later column of the same name un-names the earlier one; only columns named in the final frame are compared by name",
    "column order is judged positionally except after a group whose pipeline keeps rows (order undocumented): there columns are matched by name",
    "the result is also compared with the compiler's own final frame (RQ relation.columns) when that frame has no wildcard",
    "a result column named by a generated pattern (_expr_N / table_N) that is neither in the frame nor a user name is reported as a leaked helper column",
    "SQLite's `name:N` renaming of duplicate sub-query result names is treated as an engine artifact",
]


def run(tier, seed):
    return c01.explore("C05", PROPS, [("project", 0.6), ("core", 0.2), ("sort", 0.2), ("shared", 0.2)], tier, seed, 900, 40000, ASSUMPTIONS)


def replay(case):
    return relcheck.replay_case(case, PROPS)
