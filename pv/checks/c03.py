"""C03 — sort order persists through the pipeline; take selects by position."""
from .. import relcheck
from . import c01

PROPS = {"C03"}
ASSUMPTIONS = c01.ASSUMPTIONS + [
    "order oracle: the executed row sequence must be a concatenation of the model's tie groups (rows with equal sort keys may come in any order)",
    "a take whose boundary splits a tie group, or that is applied with no order in effect and does not cover the relation, is unspecified and not judged",
    "after a right/full join whose left input is ordered, the rows that come from left rows must keep their relative order; the rows padded from the right side may appear anywhere. Order after append is treated as not established (compared as a bag)",
    "static supplement: when the model's result is ordered with >= 2 distinct keys, the outermost SELECT must carry an ORDER BY (an engine returning sorted rows by accident does not enforce the order)",
]


def run(tier, seed):
    r = c01.explore("C03", PROPS | {"C01"}, [("sort", 0.8), ("boundary_nowin", 0.3), ("shared", 0.5)], tier, seed, 900, 40000, ASSUMPTIONS,
                    "For C03 the deciding executions are those whose model result is ordered (ordered_results) or keeps the left order through a right/full join (partially_ordered_results).")
    # 'take n and take a..b return exactly the rows at those positions': in this sort/take-centred workload a
    # difference in WHICH rows come back is a C03 matter too; defects of that kind already listed for C01 apply
    for v in r.violations:
        v["property"] = "C03"
    r.borrow_findings("C01")
    if not r.inconclusive and r.coverage.get("ordered_results", 0) < 50:
        r.inconclusive = "too few ordered results judged (%d)" % r.coverage.get("ordered_results", 0)
    return r


def replay(case):
    vs = relcheck.replay_case(case, PROPS | {"C01"})
    for v in vs:
        v["property"] = "C03"
    return vs
