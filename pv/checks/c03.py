"""C03 — sort order persists through the pipeline; take selects by position."""
from .. import relcheck
from . import c01

PROPS = {"C03"}
ASSUMPTIONS = c01.ASSUMPTIONS + [
    "order oracle: the executed row sequence must be a concatenation of the model's tie groups (rows with equal sort keys may come in any order)",
    "a take whose boundary splits a tie group, or that is applied with no order in effect and does not cover the relation, is unspecified and not judged",
    "after a right/full join whose left input is ordered, the rows that come from left rows must keep their relative order; the rows padded from the right side may appear anywhere. Order after append is treated as not established (compared as a bag)",
    "static supplement: when the model's result is ordered with >= 2 distinct keys, the outermost SELECT must carry an ORDER BY (an engine returning sorted rows by accident does not enforce the order)",
]


def take_chain_matrix(tier):
    """Enumerated: two (thorough: also three) sort | take steps in a row - every pairing of sort keys and directions
    (same columns with a direction flipped, different columns, a prefix of the other) x take forms (n, a..b, a..)
    x what stands between the steps (nothing, derive, filter) x what follows the last take (nothing, select,
    group with a window function, group-aggregate, filter, join, a let boundary)."""
    from . import c04
    col = lambda n: ["col", None, n]
    sorts = {"id": [[False, col("id")]], "-id": [[True, col("id")]], "a,id": [[False, col("a")], [False, col("id")]],
             "-a,id": [[True, col("a")], [False, col("id")]], "a,-id": [[False, col("a")], [True, col("id")]],
             "-a,-id": [[True, col("a")], [True, col("id")]], "k,id": [[False, col("k")], [False, col("id")]], "-k,-id": [[True, col("k")], [True, col("id")]]}
    takes1 = [(None, 5), (2, 6), (3, None)]          # incl. an open-ended take: it emits an OFFSET without closing the SELECT by a LIMIT
    takes2 = [(None, 2), (2, 3), (2, None)] if tier != "quick" else [(None, 2), (2, 3)]
    mids = {"none": [], "derive": [{"t": "derive", "items": [["x", ["bin", "+", col("a"), ["lit", 1]]]]}],
            "filter": [{"t": "filter", "cond": ["bin", ">", col("id"), ["lit", 1]]}]}
    tails = {
        "none": [],
        "select": [{"t": "select", "items": [[None, col("id")], [None, col("a")]]}],
        "group_window": [{"t": "group", "keys": [col("k")], "pipe": [{"t": "derive", "items": [["r", ["win", "rank", [col("a")]]]]}]}],
        "group_id_window": [{"t": "group", "keys": [col("id")], "pipe": [{"t": "derive", "items": [["r", ["win", "rank", [col("a")]]]]}]},
                            {"t": "select", "items": [[None, col("id")], [None, col("a")]]}],
        "group_aggregate": [{"t": "group", "keys": [col("k")], "pipe": [{"t": "aggregate", "items": [["n", ["agg", "count", None]], ["m", ["agg", "max", col("id")]]]}]}],
        "filter": [{"t": "filter", "cond": ["bin", "!=", col("id"), ["lit", 3]]}],
        "join": [{"t": "join", "src": {"k": "table", "name": "t3"}, "alias": "j", "side": "left", "cond": ["bin", "==", col("id"), ["col", "j", "d"]]},
                 {"t": "select", "items": [[None, col("id")], [None, ["col", "j", "e"]]]}],
        "aggregate": [{"t": "aggregate", "items": [["n", ["agg", "count", None]], ["m", ["agg", "min", col("id")]], ["x", ["agg", "max", col("id")]]]}],
    }
    def tk(r):
        return {"t": "take", "lo": r[0], "hi": r[1], "plain": r[0] is None}
    head = [{"t": "from", "src": {"k": "table", "name": "t2"}, "alias": None},
            {"t": "select", "items": [[None, col("id")], [None, col("k")], [None, col("a")], [None, col("c")]]}]
    progs = []
    for n1, s1 in sorts.items():
        for n2, s2 in sorts.items():
            for r1 in takes1:
                for r2 in takes2:
                    for mn, mid in mids.items():
                        if tier == "quick" and mn != "none" and (r1, r2) != (takes1[0], takes2[0]):
                            continue
                        for tn, tail in tails.items():
                            body = [{"t": "sort", "keys": s1}, tk(r1)] + mid + [{"t": "sort", "keys": s2}, tk(r2)] + tail
                            progs.append({"lets": [], "main": head + body, "cuts": []})
                            if tn in ("none", "group_window") and mn == "none":
                                # the same steps behind a let boundary
                                progs.append({"lets": [["p", head + body[:2 + len(mid)]]],
                                              "main": [{"t": "from", "src": {"k": "let", "name": "p"}, "alias": None}] + body[2 + len(mid):], "cuts": []})
    if tier != "quick":
        names = list(sorts)
        for i, n1 in enumerate(names):
            for n2 in names:
                for n3 in names[i % 3::3]:
                    for tn in ("none", "group_window", "select"):
                        body = [{"t": "sort", "keys": sorts[n1]}, tk((None, 7)), {"t": "sort", "keys": sorts[n2]}, tk((2, 5)), {"t": "sort", "keys": sorts[n3]}, tk((None, 2))] + tails[tn]
                        progs.append({"lets": [], "main": head + body, "cuts": []})
    db = dict(c04.MATRIX_DB)
    db["t3"] = {"cols": ["k", "d", "e"], "types": ["int", "int", "text"], "rows": [[1, 2, "p"], [2, 5, "q"], [3, 5, "r"], [4, 77, "s"]]}
    return db, progs


def matrix_phase(run, tier, seed):
    from .. import core
    db, progs = take_chain_matrix(tier)
    N = core.NCPU
    kws = [dict(prop="C03", seed=seed, shard=i, n_cases=0, profile="sort", props=PROPS | {"C01"}, fixed=[(db, progs[i::N])], reduce_budget=12) for i in range(N)]
    res = core.run_shards(relcheck.explore_shard, kws)
    obs = relcheck.merge_obs([o for _, o in res])
    for v, _ in res:
        run.extend(v)
    run.coverage["take_chain_matrix"] = {"programs": len(progs), "executions": obs.get("cases", 0), "judged": obs.get("judged", 0), "unspecified": obs.get("unspecified", 0),
                                         "rejected": obs.get("rejected", 0), "engine_unsupported": obs.get("engine_unsupported", 0),
                                         "cells": "8 sorts x 8 sorts x take forms x {nothing, derive, filter} between x 8 continuations (+ the same behind a let; thorough: three steps)"}
    run.coverage["evaluations"] = run.coverage.get("evaluations", 0) + obs.get("cases", 0)
    run.coverage["judged_against_model"] = run.coverage.get("judged_against_model", 0) + obs.get("judged", 0)
    run.coverage["ordered_results"] = run.coverage.get("ordered_results", 0) + obs.get("ordered_results", 0)
    run.coverage["distinct_nontrivial"] = run.coverage.get("distinct_nontrivial", 0) + len(obs.get("nontrivial", []))


def run(tier, seed):
    r = c01.explore("C03", PROPS | {"C01"}, [("sort", 0.8), ("boundary_nowin", 0.3), ("shared", 0.5)], tier, seed, 900, 40000, ASSUMPTIONS,
                    "For C03 the deciding executions are those whose model result is ordered (ordered_results) or keeps the left order through a right/full join (partially_ordered_results).")
    # 'take n and take a..b return exactly the rows at those positions': in this sort/take-centred workload a
    # difference in WHICH rows come back is a C03 matter too; defects of that kind already listed for C01 apply
    matrix_phase(r, tier, seed)
    for v in r.violations:
        v["property"] = "C03"
    r.borrow_findings("C01")
    if not r.inconclusive and r.coverage.get("ordered_results", 0) < 50:
        r.inconclusive = "too few ordered results judged (%d)" % r.coverage.get("ordered_results", 0)
    return r


def replay(case):
    vs = relcheck.replay_case(case, PROPS | {"C01"})
    for v in vs:
        v["property"] = "C03"
    return vs
