"""C07 — every accepted program compiles to SQL the selected dialect parses and binds."""
import re
from .. import core, corpus, relcheck
from ..gen import grel, gfeat
from ..mon import sqlscope

FEATURES = [
    "from t | take 5", "from t | take 3..7", "from t | sort a | take 2..", "from t | select !{a}", "from t | select {t.*}",
    "from a | append b", "from a | remove b", "from a | intersect b", "from t | group {a, b} (take 1)", "from t | group a (sort b | take 1)",
    "from t | select {x = (a | as int), y = (b | as float), z = (c | as text)}",
    "from t | select {d = @2020-01-01, ts = @2020-01-01T10:00:00, tm = @10:00:00, i = 3days, j = 2hours}",
    "from t | derive {d = @2020-01-01 + 3days}",
    "from t | loop (filter a < 5 | select {a = a + 1})",
    "from t | filter (name ~= \"^a\")", "from t | select {s = f\"{a} and {b}\"}",
    "from t | derive {x = a ** 2, y = a % 3, z = a // 2, w = a / 2}",
    "from t | derive {s = text.lower name, l = text.length name, u = text.upper name, tr = text.trim name, lt = text.ltrim name, rt = text.rtrim name}",
    "from t | derive {c = text.contains \"x\" name, sw = text.starts_with \"x\" name, ew = text.ends_with \"x\" name, r = text.replace \"a\" \"b\" name, e = text.extract 1 2 name}",
    "from t | derive {x = math.round 2 a, y = math.pow a 2, z = math.abs a, f = math.floor a, c = math.ceil a, p = math.pi, e = math.exp a, l = math.ln a, l10 = math.log10 a, lg = math.log 2 a, s = math.sqrt a, d = math.degrees a, r = math.radians a, co = math.cos a, ac = math.acos a, si = math.sin a, asn = math.asin a, ta = math.tan a, at = math.atan a}",
    "from t | derive {d = date.to_text \"%Y-%m-%d\" created}",
    "from t | aggregate {c = count this, s = sum a, mi = min a, ma = max a, av = average a, sd = stddev a, al = all b, an = any b, ca = concat_array a, cd = count_distinct a}",
    "from t | sort a | derive {l = lag 1 a, ld = lead 1 a, f = first a, la = last a, r = rank a, rd = rank_dense a, rn = row_number this}",
    "from t | window rolling:3 (derive {m = average a}) | window rows:-1..1 (derive {s = sum a}) | window range:-2..0 (sort a | derive {c = count this})",
    "from t | select {b = a == null, c = a != null, d = a ?? 0, e = (a | in 1..5), f = case [a > 1 => \"x\", true => \"y\"]}",
    "from [{a = 1, b = \"x\"}, {a = 2, b = null}] | filter a > 1",
    "from t | join side:left u (==id) | join side:right v (==id) | join side:full w (==id)",
    "from e = employees | select {e.name} | take 1..3",
    "let x = (from t | take 5)\nfrom x | join y = x (==id) | take 2",
    "from t | select {`select`, `from`, `order`, `My Col`}",
    "from t | derive {x = a + 1} | filter x > 1 | group x (aggregate {n = count this}) | filter n > 1 | sort {-n} | take 3",
    "from t | sort {a, -b} | select {c} | take 5 | join u (==c) | sort u.d",
    "from t | select {a, b} | distinct_placeholder",
    "from t | group {a, b} (take 1) | sort a",
    "from t | take 1 | append (from u | take 1) | sort a",
    "from t | select {x = true && false || !true}",
    "from t | filter a > 1 | take 10 | filter b > 2 | take 5..6",
    "from t | derive {x = s\"RANDOM()\"} | sort x",
    "from (read_csv \"a.csv\") | take 1", "from (read_parquet \"a.parquet\") | take 1", "from (read_json \"a.json\") | take 1",
    "from t | select {x = $1}",
]
# feature programs over the generator's schema (t1(id,k,a,b,s) t2(id,k,a,c,s) t3(k,d,e)): besides the dialect
# grammars, the sqlite / generic output of these is prepared on the pinned SQLite (the real engine of sql.sqlite)
FEATURES_DB = [
    "from t1 | select {id, k} | append (from t2 | select {id, k})",
    "from t1 | select {id, k} | append (from t2 | select {id, k}) | group {id, k} (take 1)",
    "from t1 | select {id, k} | append (from t2 | select {id, k}) | group {id, k} (take 1) | sort id",
    "from t1 | select {id, k} | remove (from t2 | select {id, k})",
    "from t1 | select {id, k} | intersect (from t2 | select {id, k})",
    "from t1 | select {id, k} | group {id, k} (take 1) | remove (from t2 | select {id, k})",
    "from t1 | select {id, k} | group {id, k} (take 1) | intersect (from t2 | select {id, k})",
    "from t1 | select {k} | group {k} (take 1)",
    "from t1 | group {k} (take 1)",
    "from t1 | group {k} (sort a | take 2)",
    "from t1 | group {k, a} (sort {-b} | take 1) | sort k | take 3",
    "from t1 | sort id | take 2..",
    "from t1 | sort id | take 3..5",
    "from t1 | sort id | take 2 | take 1",
    "from t1 | take 3 | sort {-id} | take 2..3",
    "from [{n = 1}] | loop (filter n < 4 | select n = n + 1)",
    "from t1 | select {x = (a | as int), y = (b | as float), z = (s | as text)}",
    "from t1 | derive {x = a ** 2, y = a % 3, z = a // 2, w = a / 2, n = -a, p = +a}",
    "from t1 | derive {lo = text.lower s, l = text.length s, u = text.upper s, tr = text.trim s, lt = text.ltrim s, rt = text.rtrim s}",
    "from t1 | derive {c = text.contains \"x\" s, sw = text.starts_with \"x\" s, ew = text.ends_with \"x\" s, r = text.replace \"a\" \"b\" s, e = text.extract 1 2 s}",
    "from t1 | derive {x = math.round 2 b, y = math.pow a 2, z = math.abs a, f = math.floor b, c = math.ceil b}",
    "from t1 | aggregate {c = count this, su = sum a, mi = min a, ma = max a, av = average a, cd = count_distinct a}",
    "from t1 | group k (aggregate {c = count this, su = sum a}) | filter c > 1 | sort {-su} | take 2",
    "from t1 | sort a | derive {l = lag 1 a, ld = lead 1 a, f = first a, la = last a, r = rank a, rd = rank_dense a, rn = row_number this}",
    "from t1 | window rolling:3 (sort id | derive {m = average a}) | window rows:-1..1 (sort id | derive {sm = sum a})",
    "from t1 | group k (sort id | window expanding:true (derive {run = sum a}))",
    "from t1 | select {b2 = a == null, c = a != null, d = a ?? 0, e = (a | in 1..5), f = case [a > 1 => \"x\", true => \"y\"]}",
    "from t1 | join side:left t2 (==id) | join side:right t3 (t1.k == t3.k) | select {t1.id, t2.c, t3.d}",
    "from t1 | join side:full t2 (==id) | select {t1.id, t2.c}",
    "from x = t1 | join y = t1 (x.id == y.k) | select {x.id, y.a} | sort {x.id} | take 3",
    "let top = (from t1 | sort id | take 3)\nfrom top | join t2 (==id) | select {top.id, t2.c}",
    "from t1 | select {id, k} | filter id > 1 | take 10 | filter k > 0 | take 2..3",
    "from t1 | select !{s, b}",
    "from t1 | select {t1.*} | take 1",
    "from t1 | derive {d = @2020-01-01, ts = @2020-01-01T10:00:00} | select {id, d, ts}",
    "from t1 | filter (s | in [\"x\", \"y\"]) | select {id}",
    "from_text format:csv \"\"\"\na,b\n1,2\n\"\"\" | select {a, b}",
    "from t1 | select {id, k} | append (from t2 | select {id, k}) | aggregate {n = count this}",
    "from t1 | select {id, k} | append (from t2 | select {id, k} | take 1) | sort id | take 3",
]
_FINDINGS = None
PARSER_OF = {"glaredb": "postgres"}
# constructs of the real dialect that sqlparser 0.60's grammar for it does not accept (trusted-base gaps, not findings)
PARSER_LIMITATIONS = [
    ("clickhouse", r'No infix parser for token Word\(Word \{ value: "DIV"'),      # ClickHouse has `a DIV b`
    ("clickhouse", r"Expected close delimiter '\"' before EOF"),                   # quoted-quote inside a string argument
]
SCHEMA = {t: [c for c, _ in cols] for t, cols in grel.SCHEMA.items()}


def judge_sql(w, sql, dialect, schema, do_bind):
    """-> list of (symptom, detail), stats"""
    out = []
    r = w.call({"op": "sqlparse", "dialect": PARSER_OF.get(dialect, dialect), "sql": sql, "ast": True})
    if "parser_panic" in r:
        return [], {"parser_panic": 1}
    if not r.get("ok"):
        for (dl, pat) in PARSER_LIMITATIONS:
            if dl == dialect and re.search(pat, r.get("parse_error", "")):
                # the stand-in grammar is known not to cover this construct of the real dialect: no verdict
                return [], {"parser_limitation": 1}
        msg = re.sub(r"Line: \d+, Column:? \d+", "", r.get("parse_error", "?"))
        msg = re.sub(r"\d+", "N", msg)[:90]
        if dialect == "ansi" and re.search(r"(?<![\w\"`'])_[A-Za-z0-9_]+", re.sub(r"'(?:[^']|'')*'", "''", sql)):
            # a regular identifier of standard SQL starts with a letter: the statement carries a bare
            # name with a leading underscore (the compiler's _expr_N, or a user's), and where the ANSI
            # grammar gives up on it depends on the surrounding construct - one class, not one per message
            msg = "bare identifier with a leading underscore" 
        out.append(("dialect_parser_rejects:" + msg, r.get("parse_error", "")[:200]))
        return out, {"parsed": 0}
    if r.get("n") != 1 or not r.get("is_query"):
        out.append(("not_single_query", "n=%s is_query=%s" % (r.get("n"), r.get("is_query"))))
        return out, {"parsed": 1}
    st = {"parsed": 1}
    if do_bind:
        b = sqlscope.bind(r["ast"], schema)
        st["bound"] = 1
        st["refs_checked"] = b["stats"]["refs_checked"]
        st["refs_decided"] = b["stats"]["refs_checked"] - b["stats"]["refs_open"]
        if "monitor_error" in b:
            st["monitor_error"] = 1
        # root-cause tag, see sqlscope: an aggregate call next to plain columns in a SELECT without GROUP BY
        tag = "+misplaced_aggregate" if b.get("misplaced_aggregate") else ""
        if tag:
            st["misplaced_aggregate"] = 1
        for p in b["problems"]:
            d = re.sub(r"'[^']*'|\[[^\]]*\]|\d+", "_", p["detail"])[:80]
            out.append(("bind:" + p["kind"] + ":" + d.split(":")[0] + (tag if p["kind"] in ("unresolved_column", "unknown_relation") else ""), p["detail"][:300]))
    return out, st


LET_READER_LABELS = {}


def corpus_shape(dl, src):
    if src in LET_READER_LABELS:
        lab = LET_READER_LABELS[src]
        if lab.startswith("loops "):
            return dl + " :: " + lab.replace("loops ", "loops[", 1) + "]"
        return dl + (" :: " + lab.replace("setops ", "setops[", 1) + "]" if lab.startswith("setops ") else " :: letreaders[" + lab + "]")
    return dl + " :: corpus[" + " ".join(t for t in ("join:", "append:", "group1(", "take ", "sort{", "window:") if re.search(r"\b" + re.escape(t.strip(":({ ")) + r"\b", src)) + "]:" + re.sub(r"\s+", " ", src)[:60]


def let_reader_programs():
    """One let-table (five forms) read by every ordered pair of reader kinds (append / remove / intersect by bare
    name, join, a sub-pipeline that starts from it), from a main pipeline over a database table or over the let
    itself: where the relation is declared (CTE) and where it is referenced must agree for every reader."""
    lets = {"plain": "from t2 | select {id, k}", "take": "from t2 | select {id, k} | take 3", "sorted": "from t2 | select {id, k} | sort {id} | take 3",
            "agg": "from t2 | group {id} (aggregate {k = max k})", "filter": "from t2 | select {id, k} | filter k > 1"}
    readers = {
        "append": "append t", "append_sub": "append (from t | filter id > 1)", "remove": "remove t", "intersect": "intersect t",
        "join": "join side:left j%d = t (==id) | select {id = j%d.id, k = j%d.k}",
        "join_sub": "join j%d = (from t | take 2) (==id) | select {id = j%d.id, k = j%d.k}",
    }
    out = []
    for ln, lt in sorted(lets.items()):
        for r1 in sorted(readers):
            for r2 in sorted(readers):
                for main in ("from t1 | select {id, k}", "from t"):
                    a = readers[r1] % ((1,) * readers[r1].count("%d"))
                    b = readers[r2] % ((2,) * readers[r2].count("%d"))
                    src = "let t = (%s)\n%s | %s | %s" % (lt, main, a, b)
                    LET_READER_LABELS[src] = "let:%s main:%s %s|%s" % (ln, "table" if main.startswith("from t1") else "let", r1, r2)
                    out.append(src)
    return out


FEATURES_DB += let_reader_programs()


def set_operation_programs():
    """Set operations whose two sides have to stay aligned column by column: the top side in seven forms (plain
    projection, a derive after it, a derive that feeds another derive, a derive consumed by the projection, filters
    in between, all columns of the table) x the bottom side (inline projection, projection with its own derive, a
    let read by its bare name) x append / remove / intersect x what follows (nothing, projections that prune and
    re-order, filter, derive, sort, aggregate, group, take, a second operation). None of the tops has a sort, take
    or aggregation in front of the set operation."""
    tops = {   # name -> (pipeline, frame)
        "sel": ("from t1 | select {id, k}", ["id", "k"]),
        "sel_derive": ("from t1 | select {id, k} | derive {w = id * 2}", ["id", "k", "w"]),
        "derive_chain": ("from t1 | select {id, k} | derive {w = id * 2} | derive {z = w + 1}", ["id", "k", "w", "z"]),
        "derive_sel": ("from t1 | derive {w = id * 2} | select {id, z = w + 1}", ["id", "z"]),
        "chain_sel_mid": ("from t1 | derive {w = id * 2} | select {id, k, w} | derive {z = w + k}", ["id", "k", "w", "z"]),
        "filter_mid": ("from t1 | select {id, k} | derive {w = id * 2} | filter w > 2 | derive {z = w + 1}", ["id", "k", "w", "z"]),
        "renamed": ("from t1 | select {i = id, kk = k} | derive {z = i + kk}", ["i", "kk", "z"]),
    }
    src_of = {"id": "id", "k": "k", "w": "a", "z": "c", "i": "id", "kk": "k"}
    afters = {
        "none": "", "prune_reorder": "select {%(last)s, %(first)s}", "prune_first": "select {%(first)s}", "prune_last": "select {%(last)s}",
        "filter": "filter %(last)s > 0", "derive": "derive {q = %(last)s + 1}", "derive_select": "derive {q = %(last)s + 1} | select {q}",
        "sort_select": "sort {%(first)s} | select {%(last)s}", "aggregate": "aggregate {n = count this, m = max %(last)s}",
        "group": "group %(first)s (aggregate {m = max %(last)s})", "take": "take 3", "again": "%(op)s (%(bottom)s)",
    }
    out = []
    for tn, (top, frame) in sorted(tops.items()):
        named = ", ".join(("%s = %s" % (c, src_of[c])) if c != src_of[c] else c for c in frame)
        bottoms = {
            "inline": "from t2 | select {%s}" % named,
            "derived": "from t2 | derive {u = c - 1} | select {%s}" % ", ".join(("%s = %s" % (c, "u" if c == frame[-1] and c not in ("id", "k") else src_of[c])) if c != src_of[c] else c for c in frame),
            "let": None,
        }
        for bn, bottom in sorted(bottoms.items()):
            for op in ("append", "remove", "intersect"):
                for an, after in sorted(afters.items()):
                    if op != "append" and an in ("again",):
                        continue
                    pre = ""
                    b = bottom
                    if bn == "let":
                        pre = "let bt = (%s)\n" % bottoms["inline"]
                        b = "from bt"
                    arg = "bt" if bn == "let" else "(" + b + ")"
                    a = after % {"first": frame[0], "last": frame[-1], "op": op, "bottom": bottoms["inline"]}
                    src = pre + top + " | " + op + " " + arg + ((" | " + a) if a else "")
                    LET_READER_LABELS[src] = "setops top:%s bottom:%s op:%s after:%s" % (tn, bn, op, an)
                    out.append(src)
    return out


FEATURES_DB += set_operation_programs()


def loop_programs():
    """`loop` (WITH RECURSIVE) in every place a relation can stand x what precedes it x what follows it.  What follows
    decides how many CTEs come AFTER the recursive one and whether the loop's CTE is the last of the WITH list;
    schema of FEATURES_DB (t1: id k a b s; t2: id k a c s)."""
    starts = {"literal": "from [{n = 1}]", "table": "from t1 | select {n = id}", "table_filter": "from t1 | filter id < 3 | select {n = id}",
              "aggregate": "from t1 | aggregate {n = min id}", "take": "from t1 | sort id | take 2 | select {n = id}"}
    bodies = ["filter n < 4 | select {n = n + 1}", "filter n < 4 | derive {m = n + 1} | select {n = m}", "select {n = n + 1} | filter n < 5"]
    tails = {"none": "", "select": " | select {m = n * 2}", "take_filter": " | take 3 | filter n > 1", "sort_take": " | sort {-n} | take 2",
             "window_filter": " | derive {r = rank n} | filter r > 1", "group": " | group n (aggregate {c = count this}) | filter c > 0",
             "take_derive_filter_take": " | take 5 | derive {d = n + 1} | filter d > 2 | take 2", "join": " | join t2 (n == t2.id) | select {n, t2.c}",
             "join_take_filter": " | join side:left t2 (n == t2.id) | take 4 | filter n > 0", "append": " | append (from t2 | select {n = id})",
             "append_take_filter": " | append (from t2 | select {n = id}) | take 3 | filter n > 1", "distinct": " | group n (take 1) | sort n",
             "aggregate": " | aggregate {s = sum n} | filter s > 0"}
    out = []
    for sn, st in starts.items():
        for bi, body in enumerate(bodies):
            for tn, tl in tails.items():
                if bi and sn not in ("literal", "table"):
                    continue
                lp = "%s | loop (%s)" % (st, body)
                lab = "loops start:%s body:%d tail:%s place:" % (sn, bi, tn)

                def add(place, src):
                    out.append(src)
                    LET_READER_LABELS[src] = lab + place
                add("main", lp + tl)                                                     # in the main pipeline
                if bi == 0:
                    add("let", "let l = (%s)\nfrom l%s" % (lp, tl))                     # bound by let, then read
                    if tn in ("none", "take_filter", "select", "join"):
                        add("let_joined", "let l = (%s%s)\nfrom t1 | join l (t1.id == l.%s) | take 3 | filter t1.id > 0" % (lp, tl if tn != "join" else "", "m" if tn == "select" else "n"))
                        add("appended", "from t2 | select {n = id} | append (%s) | take 4 | filter n > 0" % (lp.replace("\n", " ") + (tl if tn == "take_filter" else "")))
                        add("let_self_join", "let l = (%s)\nfrom l | join m = l (==n)%s" % (lp, "" if tn == "none" else " | take 3 | filter l.n > 0"))
    # two loops in one statement
    out.append("let a = (from [{n = 1}] | loop (filter n < 3 | select {n = n + 1}))\nlet b = (from [{n = 5}] | loop (filter n < 7 | select {n = n + 1}))\nfrom a | join b (a.n < b.n) | take 5 | filter a.n > 0")
    out.append("from [{n = 1}] | loop (filter n < 3 | select {n = n + 1}) | take 5 | loop (filter n < 6 | select {n = n + 2}) | take 4 | filter n > 1")
    return out


FEATURES_DB += loop_programs()


def setop_hidden_programs():
    """Set operations whose TOP carries columns the compiler added for itself (ROW_NUMBER of a take inside a group,
    a computed sort key, a window value only used by a filter) next to user columns, x bottoms with explicitly
    selected columns of the same or another width x what follows (nothing, a select that prunes, a filter)."""
    tops = {"group_take": "from t1 | select {k, a} | group k (take 2)", "group_sort_take": "from t1 | select {k, a} | group k (sort a | take 1)",
            "sort_expr_take": "from t1 | select {k, a} | sort {a + 1} | take 3", "window_filter": "from t1 | select {k, a} | derive {r = rank a} | filter r > 1 | select {k, a}",
            "distinct": "from t1 | select {k, a} | group {k, a} (take 1)", "plain": "from t1 | select {k, a}", "take_filter": "from t1 | select {k, a} | take 4 | filter a > 0"}
    adds = {"none": ("", 2), "derive": (" | derive {w = 1}", 3), "derive2": (" | derive {w = a + 1, v = w * 2}", 4), "derive_used": (" | derive {w = a + 1} | derive {v = w * 2} | select {k, a, v}", 3)}
    bottoms = {2: ["from t2 | select {k, c}", "from t2 | select {x = k, y = c} | sort x | take 2"],
               3: ["from t2 | select {k, c, id}", "from t2 | select {k, c} | derive {z = c + 1}"],
               4: ["from t2 | select {k, c, id, a}"]}
    afters = ["", " | select {k}", " | filter k > 0", " | sort k | take 2", " | group k (aggregate {n = count this})"]
    out = []
    for tn, top in tops.items():
        for an, (add, width) in adds.items():
            for op in ("append", "remove", "intersect"):
                for bw in (width,):          # sides of equal width: a mismatch would be the user's own error
                    for bi, bot in enumerate(bottoms[bw]):
                        for ai, aft in enumerate(afters):
                            if op != "append" and (ai > 1 or bi):
                                continue
                            if bw != width and ai not in (0, 1):
                                continue
                            src = "%s%s | %s (%s)%s" % (top, add, op, bot, aft)
                            out.append(src)
                            LET_READER_LABELS[src] = "setops top:hidden_%s add:%s bottom:w%d_%d op:%s after:%d" % (tn, an, bw, bi, op, ai)
    return out


FEATURES_DB += setop_hidden_programs()


def _shard(seed, shard, n_rel, corpus_srcs):
    rng = core.shard_rng(seed, "C07", shard)
    w = core.Worker()
    viols, seen = [], set()
    obs = {"programs": 0, "compiles": 0, "accepted": 0, "rejected": 0, "parsed": 0, "bound": 0, "refs_checked": 0, "refs_decided": 0,
           "prepared_sqlite": 0, "engine_unsupported": 0, "panics": 0, "per_dialect": {}, "nontrivial": set(), "sql_features": {}}
    db = grel.gen_db(rng, "normal")
    w.db_open("d", grel.db_stmts(db))
    work = [("corpus", s, None) for s in corpus_srcs] + [("featdb", s, None) for s in (FEATURES_DB + [p for _, p in gfeat.programs() if len(p) < 3000])[shard::core.NCPU]]
    for i in range(n_rel):
        prof = ["core", "project", "window", "sort", "shared"][i % 5]
        try:
            p = grel.random_program(rng, prof)
            work.append(("grel", grel.pp_program(p), p))
        except (ValueError, IndexError):
            continue
    for (origin, src, prog) in work:
        obs["programs"] += 1
        has_sstring = bool(re.search(r"\bs\"|\bs'", src))
        for dialect in core.DIALECTS:
            r = w.call({"op": "compile", "src": src, "target": "sql." + dialect})
            obs["compiles"] += 1
            pd = obs["per_dialect"].setdefault(dialect, {"accepted": 0, "rejected": 0, "parsed": 0, "violations": 0})
            if "sql" not in r:
                if "panic" in r:
                    obs["panics"] += 1
                else:
                    obs["rejected"] += 1
                    pd["rejected"] += 1
                continue
            obs["accepted"] += 1
            pd["accepted"] += 1
            sql = r["sql"]
            for k, v in relcheck.sql_shape(sql).items():
                if v:
                    obs["sql_features"][k] = obs["sql_features"].get(k, 0) + 1
            obs["nontrivial"].add(hash((sql, dialect)) & 0xfffffffff)
            if has_sstring:
                # raw SQL fragments are the user's, in whatever dialect they chose: not judged
                obs["skipped_sstring"] = obs.get("skipped_sstring", 0) + 1
                continue
            out, st = judge_sql(w, sql, dialect, SCHEMA if origin in ("grel", "featdb") else None, do_bind=True)
            for k, v in st.items():
                obs[k] = obs.get(k, 0) + v
            pd["parsed"] += st.get("parsed", 0)
            if origin in ("grel", "featdb") and dialect in ("sqlite", "generic"):
                e = w.call({"op": "db_exec", "name": "d", "sql": sql, "prepare_only": True})
                if "sqlite_error" in e:
                    cls = relcheck.classify_sqlite_error(e["sqlite_error"], dialect)
                    if cls == "engine_unsupported":
                        obs["engine_unsupported"] += 1
                    else:
                        msg = re.sub(r"[\w.]*_expr_\d+|table_\d+(\.\w+)?|\b[a-z]\d+\.\w+", "X", e["sqlite_error"].split(" in ")[0])
                        out.append(("sqlite_prepare:" + cls + ":" + re.sub(r"\d+", "N", msg)[:60] + ("+misplaced_aggregate" if st.get("misplaced_aggregate") else ""), e["sqlite_error"][:300]))
                else:
                    obs["prepared_sqlite"] += 1
            for (sym, det) in out:
                pd["violations"] += 1
                wit = {"src": src, "dialect": dialect, "prog": prog, "schema": origin == "featdb"}
                shape = dialect
                dl = "any" if sym.startswith("bind:") else dialect      # scoping is dialect-agnostic
                if prog is not None:
                    key0 = (sym, dl, tuple(grel.kinds_of(prog)))
                    if key0 in seen:
                        viols.append({"property": "C07", "symptom": sym, "shape": None, "witness": None, "detail": det, "dupkey": key0})
                        continue
                    seen.add(key0)
                    ushape = dl + " :: " + relcheck.shape_of(prog)
                    attributable = False
                    if len([1 for v in viols if v.get("witness")]) >= 25:
                        # past the budget, reduce only what no listed finding already explains unreduced
                        global _FINDINGS
                        if _FINDINGS is None:
                            _FINDINGS = core.load_findings("C07")
                        attributable = any(f.matches({"property": "C07", "symptom": sym, "shape": ushape}) for f in _FINDINGS)
                    if not attributable:
                        def fails(c, sym=sym, dialect=dialect):
                            if not relcheck.well_scoped(c, db):
                                return False
                            try:
                                s2 = grel.pp_program(c)
                            except Exception:
                                return False
                            r2 = w.call({"op": "compile", "src": s2, "target": "sql." + dialect})
                            if "sql" not in r2:
                                return False
                            o2, st2 = judge_sql(w, r2["sql"], dialect, SCHEMA, True)
                            if dialect in ("sqlite", "generic") and sym.startswith("sqlite_prepare"):
                                e2 = w.call({"op": "db_exec", "name": "d", "sql": r2["sql"], "prepare_only": True})
                                if "sqlite_error" in e2:
                                    cls2 = relcheck.classify_sqlite_error(e2["sqlite_error"], dialect)
                                    msg2 = re.sub(r"[\w.]*_expr_\d+|table_\d+(\.\w+)?|\b[a-z]\d+\.\w+", "X", e2["sqlite_error"].split(" in ")[0])
                                    o2.append(("sqlite_prepare:" + cls2 + ":" + re.sub(r"\d+", "N", msg2)[:60] + ("+misplaced_aggregate" if st2.get("misplaced_aggregate") else ""), ""))
                            return any(s == sym for s, _ in o2)
                        rp = relcheck.reduce_prog(prog, fails, max_tests=150)
                        wit = {"src": grel.pp_program(rp), "dialect": dialect, "prog": rp}
                        r3 = w.call({"op": "compile", "src": wit["src"], "target": "sql." + dialect})
                        det = det + " || sql: " + r3.get("sql", "")[:400]
                        shape = dl + " :: " + relcheck.shape_of(rp)
                    else:
                        shape = dl + " :: " + relcheck.shape_of(prog)
                else:
                    shape = corpus_shape(dl, src)
                viols.append({"property": "C07", "symptom": sym, "shape": shape, "witness": wit, "detail": det})
    w.close()
    obs["nontrivial"] = len(obs["nontrivial"])
    # resolve duplicate markers: give them the shape of the first occurrence
    first = {}
    for v in viols:
        if v.get("witness") and v["witness"].get("prog") is not None:
            first[(v["symptom"], v["witness"]["dialect"])] = v["shape"]
    return [v for v in viols if v.get("witness")], obs


def run(tier, seed):
    run = core.Run("C07", tier, seed)
    N = core.NCPU
    srcs = FEATURES + [s for s in corpus.sources() if len(s) < 2000]
    n_rel = 40 if tier == "quick" else 2500
    res = core.run_shards(_shard, [dict(seed=seed, shard=i, n_rel=n_rel, corpus_srcs=srcs[i::N]) for i in range(N)])
    obs = {}
    for v, o in res:
        run.extend(v)
        core.merge_counts(obs, o)
    best = {}
    for v in run.violations:
        k = (v["symptom"], v["shape"])
        if k not in best:
            best[k] = v
    run.violations = list(best.values())
    run.coverage = {
        "evaluations": obs.get("compiles", 0),
        "distinct_nontrivial": obs.get("nontrivial", 0),
        "rule": "every program (feature programs for loop / set operations / casts / literals / every std function, corpus, random relational + window + projection programs) is compiled for all 12 dialects; each accepted output is parsed with sqlparser's grammar for that dialect (GlareDB: Postgres grammar), scope-checked by the AST monitor, and for sqlite/generic prepared on pinned SQLite against the schema; "
                "distinct non-trivial = distinct (emitted SQL text, dialect) pairs that were accepted and examined",
        "samples": [FEATURES[0], FEATURES[13], srcs[len(FEATURES)]],
    }
    run.coverage.update(obs)
    run.assumptions = [
        "trusted base: sqlparser 0.60 dialect grammars stand in for the dialects' own parsers; a rejection by that grammar is reported as a violation and triaged",
        "scope monitor (pv/mon/sqlscope.py) reports only references it can decide: unknown relations / open column lists yield no report; programs with s-strings are parse-checked but not scope-checked",
        "SQLite prepare: scope errors are violations for sqlite and generic output; syntax errors only for sql.sqlite (for generic, SQLite is a stand-in engine => engine-unsupported, counted)",
        "compile errors are fine by definition ('reported, not emitted')",
    ]
    return run


def replay(case):
    w = core.Worker()
    rng = core.shard_rng(0, "C07", 0)
    db = grel.gen_db(rng, "normal")
    w.db_open("d", grel.db_stmts(db))
    dialect = case["dialect"]
    if "src" not in case and "prog" in case:
        case = dict(case, src=case.get("prql") or grel.pp_program(case["prog"]))       # a relational-check witness
    r = w.call({"op": "compile", "src": case["src"], "target": "sql." + dialect})
    out = []
    if "sql" in r:
        has_sstring = bool(re.search(r"\bs\"|\bs'", case["src"]))
        o, st = judge_sql(w, r["sql"], dialect, SCHEMA if (case.get("prog") or case.get("schema")) else None, not has_sstring)
        if (case.get("prog") or case.get("schema")) and dialect in ("sqlite", "generic"):
            e = w.call({"op": "db_exec", "name": "d", "sql": r["sql"], "prepare_only": True})
            if "sqlite_error" in e:
                cls = relcheck.classify_sqlite_error(e["sqlite_error"], dialect)
                if cls != "engine_unsupported":
                    msg = re.sub(r"[\w.]*_expr_\d+|table_\d+(\.\w+)?|\b[a-z]\d+\.\w+", "X", e["sqlite_error"].split(" in ")[0])
                    o.append(("sqlite_prepare:" + cls + ":" + re.sub(r"\d+", "N", msg)[:60] + ("+misplaced_aggregate" if st.get("misplaced_aggregate") else ""), e["sqlite_error"][:300]))
        out = []
        for s_, d in o:
            dl = "any" if s_.startswith("bind:") else dialect
            shape = (dl + " :: " + relcheck.shape_of(case["prog"])) if case.get("prog") else corpus_shape(dl, case["src"])
            out.append({"property": "C07", "symptom": s_, "shape": shape, "witness": case, "detail": d})
    w.close()
    return out
