"""C09 — identifiers are referenced verbatim; generated names never capture user names."""
import copy, re
from .. import core, relcheck
from ..gen import grel
from . import c01, c06

POOLS = {
    "sql_keyword": ["select", "order", "group", "table", "from", "where", "user", "index", "limit", "union", "values", "join", "on", "as", "by", "having", "distinct", "end", "when", "then"],
    "prql_keyword": ["let", "case", "type", "func", "into", "module", "import", "enum", "internal", "prql"],
    "mixed_case": ["MyCol", "UPPER", "camelCase", "Id2", "TableX", "aB", "Zed", "QQ", "Col_A", "xY", "A", "Z9", "trailing_", "a__b", "x_"],
    "leading_underscore": ["_x", "__dunder__", "_1", "_", "_Mixed", "_a b"],
    "space_punct": ["my col", "a-b", "x y z", "col#1", "100%", "a+b", "k/v", "q?", "a,b", "(p)", "semi;colon", "at@sign", "eq=", "star*",
                    "a.b", "x.y.z", ".lead", "trail.", "tab\tin", " lead", "trail ", "a:b", "a|b", "a&b", "[br]", "{cu}", "back\\slash", "new\nline"],
    "leading_digit": ["1st", "2col", "3", "42x", "0_a", "7up", "9z", "5five"],
    "dollar": ["a$b", "$x", "cost$", "a$$", "$1x"],
    "non_ascii": ["ünï", "列", "😀x", "naïve", "Ωmega", "ñ", "данные", "café"],
    "quotes": ["it's", "say\"hi\"", "dq\"", "'sq'", "mix'\"", "q\"\"q"],
    # names that only BEGIN like one of the safe-looking classes (a generated name, a keyword, a plain lower-case word)
    # and go on with something that needs quoting: a shortcut that classifies a name by its beginning shows here
    "generated_prefix": ["table_3 b", "_expr_1 total", "table_1.x", "table_2024-01", "table_2A", "_expr_0x y", "table_0_ z", "_expr_12 3", "table_9$",
                         "_expr_7é", "table_1'q", "table_5\"d", "table_00-", "_expr_-1", "table_ 1", "_expr_ a", "table_1,table_2", "_expr_3;"],
    "compound": ["select x", "order-by", "a b", "abc.def", "x-1", "lower UPPER", "from.t", "t1 t2", "a as b", "n null", "col1,col2", "a--b", "a/*b*/",
                 "group by", "a;b", "x y", "tab.col.sub", "a  b", "é a", "a\tb"],
    "generated": ["table_0", "table_1", "table_2", "table_3", "_expr_0", "_expr_1", "_expr_2", "_expr_3", "table_4", "_expr_4"],
}


def collect_names(prog, db):
    """All user-chosen names in program + db: ('table', t) ('col', name) ('alias', a) ('let', l)."""
    names = {"table": set(db.keys()), "col": set(), "alias": set(), "let": set()}
    for t, d in db.items():
        names["col"] |= set(d["cols"])

    def expr(e):
        if not isinstance(e, list) or not e:
            return
        if e[0] == "col":
            if e[1] and e[1] not in ("this", "that"):
                names["alias"].add(e[1])
            names["col"].add(e[2])
            return
        if e[0] == "case":
            for c, v in e[1]:
                expr(c)
                expr(v)
            return
        if e[0] == "win":
            for a in e[2]:
                expr(a)
            return
        for x in e[1:]:
            expr(x)

    def src(s):
        if s["k"] == "pipe":
            pipe(s["pipe"])
        elif s["k"] == "lit":
            names["col"] |= set(s["cols"])
        elif s["k"] == "let":
            names["let"].add(s["name"])

    def pipe(p):
        for t in p:
            k = t["t"]
            if k in ("from", "join", "append"):
                src(t["src"])
                if t.get("alias"):
                    names["alias"].add(t["alias"])
            if k in ("select", "derive", "aggregate"):
                for n, e in t["items"]:
                    if n:
                        names["col"].add(n)
                    expr(e)
            if k == "filter":
                expr(t["cond"])
            if k == "exclude":
                for e in t["cols"]:
                    expr(e)
            if k == "sort":
                for d, e in t["keys"]:
                    expr(e)
            if k == "join":
                expr(t["cond"])
            if k == "group":
                for e in t["keys"]:
                    expr(e)
                pipe(t["pipe"])
            if k == "window":
                pipe(t["pipe"])
    for n, p in prog.get("lets", []):
        names["let"].add(n)
        pipe(p)
    pipe(prog["main"])
    # a table used without alias doubles as qualifier
    names["alias"] -= names["table"] | names["let"]
    return names


def rename(prog, db, m):
    """m: {('table',t): new, ('col',c): new, ('alias',a): new, ('let',l): new}"""
    prog = copy.deepcopy(prog)
    db2 = {}
    for t, d in db.items():
        db2[m.get(("table", t), t)] = {"cols": [m.get(("col", c), c) for c in d["cols"]], "types": d["types"], "rows": d["rows"]}

    def q(a):
        if a is None or a in ("this", "that"):
            return a
        for kind in ("alias", "table", "let"):
            if (kind, a) in m:
                return m[(kind, a)]
        return a

    def expr(e):
        if not isinstance(e, list) or not e:
            return e
        if e[0] == "col":
            return ["col", q(e[1]), m.get(("col", e[2]), e[2])] + e[3:]
        if e[0] == "case":
            return ["case", [[expr(c), expr(v)] for c, v in e[1]]]
        if e[0] == "win":
            return ["win", e[1], [expr(a) if isinstance(a, list) else a for a in e[2]]]
        return [e[0]] + [expr(x) if isinstance(x, list) else x for x in e[1:]]

    def src(s):
        if s["k"] == "pipe":
            pipe(s["pipe"])
        elif s["k"] == "lit":
            s["cols"] = [m.get(("col", c), c) for c in s["cols"]]
        elif s["k"] == "let":
            s["name"] = m.get(("let", s["name"]), s["name"])
        elif s["k"] == "table":
            s["name"] = m.get(("table", s["name"]), s["name"])

    def pipe(p):
        for t in p:
            k = t["t"]
            if k in ("from", "join", "append"):
                src(t["src"])
                if t.get("alias"):
                    t["alias"] = m.get(("alias", t["alias"]), t["alias"])
            if k in ("select", "derive", "aggregate"):
                t["items"] = [[m.get(("col", n), n) if n else n, expr(e)] for n, e in t["items"]]
            if k == "filter":
                t["cond"] = expr(t["cond"])
            if k == "exclude":
                t["cols"] = [expr(e) for e in t["cols"]]
            if k == "sort":
                t["keys"] = [[d, expr(e)] for d, e in t["keys"]]
            if k == "join":
                t["cond"] = expr(t["cond"])
                t.pop("cond_text", None)
            if k == "group":
                t["keys"] = [expr(e) for e in t["keys"]]
                pipe(t["pipe"])
            if k == "window":
                pipe(t["pipe"])
    prog["lets"] = [[m.get(("let", n), n), p] for n, p in prog.get("lets", [])]
    for n, p in prog["lets"]:
        pipe(p)
    pipe(prog["main"])
    return prog, db2


def make_map(rng, names, cls):
    pool = list(POOLS[cls])
    rng.shuffle(pool)
    allnames = [(k, n) for k in ("table", "let", "alias", "col") for n in sorted(names[k])]
    rng.shuffle(allnames)
    taken = {n.lower() for _, n in allnames}
    m = {}
    positions = set()
    frac = rng.choice([0.3, 0.6, 1.0])
    for (k, n) in allnames:
        if not pool:
            break
        if rng.random() > frac:
            continue
        new = pool.pop()
        if new.lower() in taken:
            continue
        taken.add(new.lower())
        m[(k, n)] = new
        positions.add(k)
    return m, positions


BARE_OK = re.compile(r"^[a-z_][a-z0-9_]*$")


def static_check(w, src, hostile, user_all, base_src=None):
    """Other dialects: every identifier in the emitted statement is verbatim a user name (or a generated one), quoted unless plain."""
    out = []
    for dialect in core.DIALECTS:
        r = w.call({"op": "compile", "src": src, "target": "sql." + dialect})
        if "sql" not in r:
            continue
        pd = {"glaredb": "postgres"}.get(dialect, dialect)
        p = w.call({"op": "sqlparse", "dialect": pd, "sql": r["sql"], "ast": True})
        if not p.get("ok"):
            # only the renaming is judged here: the un-renamed program must parse for this dialect
            if base_src is not None:
                rb = w.call({"op": "compile", "src": base_src, "target": "sql." + dialect})
                if "sql" not in rb or not w.call({"op": "sqlparse", "dialect": pd, "sql": rb["sql"]}).get("ok"):
                    continue
            out.append((dialect, "statement_unparseable", r["sql"][:200]))
            continue
        idents = []
        collect_idents(p["ast"], idents, False)
        vals = {v for v, _ in idents}
        for v, qs in idents:
            if qs is None and v in hostile and not BARE_OK.match(v):
                out.append((dialect, "unquoted_unsafe_identifier", "%r emitted bare; sql=%s" % (v, r["sql"][:200])))
    return out


def collect_idents(ast, sink, in_func_name):
    if isinstance(ast, dict):
        for k, v in ast.items():
            if k == "Function" and isinstance(v, dict):
                for kk, vv in v.items():
                    if kk != "name":
                        collect_idents(vv, sink, False)
                continue
            if k in ("Identifier",) and isinstance(v, dict) and "value" in v:
                sink.append((v["value"], v.get("quote_style")))
            elif k == "CompoundIdentifier" and isinstance(v, list):
                for part in v:
                    if isinstance(part, dict) and "value" in part:
                        sink.append((part["value"], part.get("quote_style")))
            elif k in ("alias", "name") and isinstance(v, dict) and "value" in v and "quote_style" in v:
                sink.append((v["value"], v.get("quote_style")))
                collect_idents(v, sink, False)
            elif k in ("span", "token", "select_token", "data_type"):
                continue
            else:
                collect_idents(v, sink, False)
    elif isinstance(ast, list):
        for x in ast:
            collect_idents(x, sink, False)


def collision_matrix():
    """Programs in which the compiler has to invent relation names (an alias for the second
    unaliased instance of a table, a CTE for a sub-pipeline or for a split), with the user's own
    tables / lets carrying exactly those names.  -> list of (label, prog, rename-map)"""
    def col(q, n):
        return ["col", q, n]

    def frm(t):
        return {"t": "from", "src": {"k": "table", "name": t}, "alias": None}

    def join_that(t, left_q, lcol, rcol, side="inner"):
        return {"t": "join", "src": {"k": "table", "name": t}, "alias": None, "side": side, "cond": ["bin", "==", col(left_q, lcol), col("that", rcol)]}
    sel = {"t": "select", "items": [[None, col("t1", "id")], [None, col("t1", "k")]]}
    srt = {"t": "sort", "keys": [[False, col("t1", "id")]]}
    templates = {
        "dup2": [frm("t1"), join_that("t2", "t1", "id", "id"), join_that("t2", "t1", "k", "k")],
        "dup2_select": [frm("t1"), join_that("t2", "t1", "id", "id"), join_that("t2", "t1", "k", "k"), sel],
        "dup3_select": [frm("t1"), join_that("t2", "t1", "id", "id"), join_that("t2", "t1", "k", "k"), join_that("t2", "t1", "a", "a"), sel],
        "dup2_left_sort_take": [frm("t1"), join_that("t2", "t1", "id", "id", "left"), join_that("t2", "t1", "k", "k", "left"), sel, srt, {"t": "take", "lo": None, "hi": 3}],
        "self_dup": [frm("t1"), join_that("t1", "t1", "id", "id"), sel],
        "split": [frm("t1"), srt, {"t": "take", "lo": None, "hi": 3}, {"t": "filter", "cond": ["bin", ">", col("t1", "id"), ["lit", 0]]},
                  {"t": "sort", "keys": [[True, col("t1", "k")]]}, {"t": "take", "lo": None, "hi": 2}],
        "split_join": [frm("t1"), srt, {"t": "take", "lo": None, "hi": 3}, join_that("t2", "t1", "id", "id"), sel],
        "join_pipe": [frm("t1"), {"t": "join", "src": {"k": "pipe", "pipe": [frm("t2"), {"t": "select", "items": [[None, col("t2", "id")], [None, col("t2", "c")]]}, {"t": "sort", "keys": [[False, col("t2", "id")]]}, {"t": "take", "lo": None, "hi": 2}]},
                                  "alias": "jp", "side": "inner", "cond": ["bin", "==", col("t1", "id"), col("jp", "id")]}, sel],
    }
    gens = [None, "table_0", "table_1", "table_2"]
    # programs whose LETS hold the relations the compiler has to name (an anonymous sub-pipeline, a split), read by a
    # main pipeline that starts from / joins the user's table: the order in which declarations reach the naming pass
    # differs from the order of the plain templates above
    anon = {"k": "pipe", "pipe": [frm("t1"), {"t": "select", "items": [[None, col("t1", "id")], [None, col("t1", "a")]]},
                                  {"t": "sort", "keys": [[False, col("t1", "id")]]}, {"t": "take", "lo": None, "hi": 3}]}
    let_anon = [frm("t1"), {"t": "join", "src": anon, "alias": "jp", "side": "inner", "cond": ["bin", "==", col("t1", "id"), col("jp", "id")]},
                {"t": "select", "items": [[None, col("t1", "id")], [None, col("t1", "k")], [None, col("jp", "a")]]}]
    let_split = [frm("t1"), {"t": "select", "items": [[None, col("t1", "id")], [None, col("t1", "k")], [None, col("t1", "a")]]},
                 {"t": "sort", "keys": [[False, col(None, "id")]]}, {"t": "take", "lo": None, "hi": 4},
                 {"t": "filter", "cond": ["bin", ">", col(None, "id"), ["lit", 0]]}, {"t": "sort", "keys": [[True, col(None, "k")], [False, col(None, "id")]]}, {"t": "take", "lo": None, "hi": 3}]

    def join_let(name, lq, lcol, rcol, side="inner"):
        return {"t": "join", "src": {"k": "let", "name": name}, "alias": None, "side": side, "cond": ["bin", "==", col(lq, lcol), col(name, rcol)]}
    sel_l = {"t": "select", "items": [[None, col("t2", "id")], [None, col("t2", "c")], [None, col("lr", "a")]]}
    let_templates = {
        "let_anon_joined": {"lets": [["lr", let_anon]], "main": [frm("t2"), join_let("lr", "t2", "id", "id"), sel_l]},
        "let_anon_joined_left": {"lets": [["lr", let_anon]], "main": [frm("t2"), join_let("lr", "t2", "id", "id", "left"), sel_l]},
        "let_anon_from": {"lets": [["lr", let_anon]], "main": [{"t": "from", "src": {"k": "let", "name": "lr"}, "alias": None},
                                                               {"t": "join", "src": {"k": "table", "name": "t2"}, "alias": None, "side": "inner", "cond": ["bin", "==", col("lr", "id"), col("t2", "id")]}, sel_l]},
        "let_split_joined": {"lets": [["lr", let_split]], "main": [frm("t2"), join_let("lr", "t2", "id", "id"), sel_l]},
        "let_split_from": {"lets": [["lr", let_split]], "main": [{"t": "from", "src": {"k": "let", "name": "lr"}, "alias": None},
                                                                 {"t": "join", "src": {"k": "table", "name": "t2"}, "alias": None, "side": "inner", "cond": ["bin", "==", col("lr", "id"), col("t2", "id")]}, sel_l]},
        "let_anon_twice": {"lets": [["lr", let_anon], ["lq", [{"t": "from", "src": {"k": "let", "name": "lr"}, "alias": None}, {"t": "filter", "cond": ["bin", ">", col("lr", "id"), ["lit", 1]]}]]],
                           "main": [frm("t2"), join_let("lr", "t2", "id", "id"), sel_l, {"t": "join", "src": {"k": "let", "name": "lq"}, "alias": None, "side": "left", "cond": ["bin", "==", col(None, "id"), col("lq", "id")]},
                                    {"t": "select", "items": [[None, col(None, "c")], [None, col("lq", "a")]]}]},
    }
    out = []
    for label, prog in sorted(let_templates.items()):
        for g1 in gens:
            for g2 in gens:
                if g1 is None and g2 is None or (g1 is not None and g1 == g2):
                    continue
                m = {}
                if g1:
                    m[("table", "t1")] = g1
                if g2:
                    m[("table", "t2")] = g2
                out.append(("%s/%s,%s" % (label, g1 or "-", g2 or "-"), dict(copy.deepcopy(prog), cuts=[]), m))
    for label, main in sorted(templates.items()):
        for g1 in gens:
            for g2 in gens:
                if g1 is None and g2 is None or (g1 is not None and g1 == g2):
                    continue
                m = {}
                if g1:
                    m[("table", "t1")] = g1
                if g2:
                    m[("table", "t2")] = g2
                out.append(("%s/%s,%s" % (label, g1 or "-", g2 or "-"), {"lets": [], "main": copy.deepcopy(main), "cuts": []}, m))
        # the same program behind a let that carries a generated name
        for g in gens[1:]:
            prog = {"lets": [["lx", copy.deepcopy(main)]], "main": [{"t": "from", "src": {"k": "let", "name": "lx"}, "alias": None}], "cuts": []}
            out.append(("%s/let=%s" % (label, g), prog, {("let", "lx"): g}))
    return out


def _matrix_part(w, rng, shard, nshards, obs, viols, seen):
    cases = collision_matrix()
    for i, (label, prog, m) in enumerate(cases):
        if i % nshards != shard:
            continue
        for kind in ("normal", "dups"):
            db = grel.gen_db(rng, kind)
            p2, db2 = rename(prog, db, m)
            try:
                src2 = grel.pp_program(p2)
            except ValueError:
                continue
            names2 = collect_names(p2, db2)
            user_all = set().union(*names2.values())
            for dialect in ("sqlite", "generic"):
                w.db_close_all()
                # only the renaming is judged: the program with neutral names must be clean
                w.db_open("d", grel.db_stmts(db))
                base = relcheck.run_case(w, prog, db, "d", dialect)
                if base.status != "judged" or base.symptoms:
                    obs["matrix_base_not_clean"] = obs.get("matrix_base_not_clean", 0) + 1
                    continue
                w.db_open("h", grel.db_stmts(db2))
                o = relcheck.run_case(w, p2, db2, "h", dialect, src=src2, user_names=user_all)
                obs["matrix_cases"] = obs.get("matrix_cases", 0) + 1
                symptoms = []
                if o.status == "rejected":
                    obs["matrix_rejected"] = obs.get("matrix_rejected", 0) + 1
                elif o.status in ("panic", "abort"):
                    symptoms.append(("renamed_panics", str(o.symptoms)[:200], (o.symptoms[0][0], o.symptoms[0][1])) if o.symptoms else ("renamed_panics", ""))
                elif o.status == "judged":
                    obs["matrix_judged"] = obs.get("matrix_judged", 0) + 1
                    obs["cells"].add(("generated", "matrix:" + label.split("/")[0]))
                    for (pp, sym, det) in o.symptoms:
                        if pp in ("C01", "C03", "C05", "C07"):
                            symptoms.append(("renamed_" + sym, det + " || sql: " + (o.sql or "")[:300], (pp, sym)))
                for item in symptoms:
                    sym, det = item[0], item[1]
                    key = (sym, label.split("/")[0], "matrix")
                    if key in seen:
                        continue
                    seen.add(key)
                    pos = "+".join(sorted({k[0] for k in m})) or "let"
                    viols.append({"property": "C09", "symptom": sym, "shape": "%s :: generated/matrix:%s:%s :: inherits:none" % (dialect, label.split("/")[0], pos),
                                  "witness": {"prog": p2, "db": db2, "dialect": dialect, "class": "generated", "map": [[list(k), v] for k, v in m.items()], "prql": src2, "matrix": label},
                                  "detail": det})


# reserved words of the engines' own published lists (SQLite: https://www.sqlite.org/lang_keywords.html;
# PostgreSQL reserved words of appendix C that are not in SQLite's list): each is used as a column name,
# a table name and a new alias in a fixed tiny program, executed against a database that has those names
SQLITE_KEYWORDS = """abort action add after all alter always analyze and as asc attach autoincrement before begin between by cascade case cast check
collate column commit conflict constraint create cross current current_date current_time current_timestamp database default deferrable deferred
delete desc detach distinct do drop each else end escape except exclude exclusive exists explain fail filter first following for foreign from
full generated glob group groups having if ignore immediate in index indexed initially inner insert instead intersect into is isnull join key
last left like limit match materialized natural no not nothing notnull null nulls of offset on or order others outer over partition plan pragma
preceding primary query raise range recursive references regexp reindex release rename replace restrict returning right rollback row rows
savepoint select set table temp temporary then ties to transaction trigger unbounded union unique update using vacuum values view virtual when
where window with without""".split()
POSTGRES_EXTRA = """analyse any array asymmetric authorization binary both concurrently current_catalog current_role current_schema current_user
false fetch freeze grant ilike lateral leading localtime localtimestamp only overlaps placing session_user similar some symmetric tablesample
trailing true user variadic verbose""".split()


def keyword_matrix():
    out = []
    for kw in SQLITE_KEYWORDS + POSTGRES_EXTRA:
        c = ["col", "kt", kw]
        out.append(("column", kw, {"lets": [], "cuts": [], "main": [
            {"t": "from", "src": {"k": "table", "name": "kt"}, "alias": None},
            {"t": "select", "items": [[None, c], [None, ["col", "kt", "id"]]]},
            {"t": "filter", "cond": ["bin", "!=", ["col", None, kw], ["lit", None]]},
            {"t": "sort", "keys": [[True, ["col", None, kw]], [False, ["col", None, "id"]]]}]}, {"kt": {"cols": ["id", kw], "types": ["int", "int"], "rows": [[1, 5], [2, None], [3, 7]]}}))
        out.append(("table", kw, {"lets": [], "cuts": [], "main": [
            {"t": "from", "src": {"k": "table", "name": kw}, "alias": None},
            {"t": "select", "items": [[None, ["col", kw, "id"]], [None, ["col", kw, "v"]]]},
            {"t": "sort", "keys": [[False, ["col", None, "id"]]]}]}, {kw: {"cols": ["id", "v"], "types": ["int", "int"], "rows": [[1, 5], [2, None]]}}))
        kdb = {"kt": {"cols": ["id", "x"], "types": ["int", "int"], "rows": [[1, 5], [2, None], [3, 7]]}}
        out.append(("alias", kw, {"lets": [], "cuts": [], "main": [
            {"t": "from", "src": {"k": "table", "name": "kt"}, "alias": kw},
            {"t": "select", "items": [[None, ["col", kw, "id"]], [None, ["col", kw, "x"]]]},
            {"t": "sort", "keys": [[True, ["col", kw, "id"]]]},
            {"t": "take", "lo": None, "hi": 2}]}, kdb))
        out.append(("new_column", kw, {"lets": [], "cuts": [], "main": [
            {"t": "from", "src": {"k": "table", "name": "kt"}, "alias": None},
            {"t": "derive", "items": [[kw, ["bin", "+", ["col", "kt", "id"], ["lit", 1]]]]},
            {"t": "select", "items": [[None, ["col", None, kw]], [None, ["col", "kt", "id"]]]},
            {"t": "sort", "keys": [[True, ["col", None, kw]]]},
            {"t": "take", "lo": None, "hi": 2}]}, kdb))
    return out


def _keyword_part(w, shard, nshards, obs, viols, seen):
    for i, (pos, kw, prog, db) in enumerate(keyword_matrix()):
        if i % nshards != shard:
            continue
        try:
            src = grel.pp_program(prog)
        except ValueError:
            continue
        for dialect in ("sqlite", "generic"):
            w.db_close_all()
            w.db_open("h", grel.db_stmts(db))
            o = relcheck.run_case(w, prog, db, "h", dialect, src=src, user_names={kw, "id", "v", "x", "kt"})
            obs["keyword_cases"] = obs.get("keyword_cases", 0) + 1
            symptoms = []
            if o.status == "rejected":
                obs["keyword_rejected"] = obs.get("keyword_rejected", 0) + 1
            elif o.status in ("panic", "abort"):
                symptoms.append(("renamed_panics", str(o.symptoms)[:200]))
            elif o.status == "judged":
                obs["keyword_judged"] = obs.get("keyword_judged", 0) + 1
                obs["cells"].add(("engine_keyword", pos))
                for (pp, sym, det) in o.symptoms:
                    if pp in ("C01", "C03", "C05", "C07"):
                        symptoms.append(("renamed_" + sym, det + " || sql: " + (o.sql or "")[:300]))
            for (sym, det) in symptoms:
                key = (sym, pos, kw)
                if key in seen:
                    continue
                seen.add(key)
                viols.append({"property": "C09", "symptom": sym, "shape": "%s :: engine_keyword/%s/%s :: inherits:none" % (dialect, pos, kw),
                              "witness": {"prog": prog, "db": db, "dialect": dialect, "class": "engine_keyword", "map": [], "prql": src}, "detail": det})


def _shard(seed, shard, n_cases):
    rng = core.shard_rng(seed, "C09", shard)
    w = core.Worker()
    viols, seen = [], set()
    obs = {"cases": 0, "judged": 0, "rejected": 0, "base_not_clean": 0, "cells": set(), "static_checks": 0, "collision_programs": 0, "unspecified": 0}
    classes = sorted(POOLS)
    ci = 0
    n_reduced = 0
    _matrix_part(w, rng, shard, core.NCPU, obs, viols, seen)
    _keyword_part(w, shard, core.NCPU, obs, viols, seen)
    while obs["cases"] < n_cases:
        db = grel.gen_db(rng, relcheck.DB_KINDS[ci % 5])
        try:
            prog = grel.random_program(rng, rng.choice(["core", "project", "sort", "core", "shared"]))
            grel.pp_program(prog)
        except (ValueError, IndexError):
            continue
        dialect = rng.choice(["sqlite", "generic"])
        w.db_close_all()
        w.db_open("d", grel.db_stmts(db))
        base = relcheck.run_case(w, prog, db, "d", dialect)
        if base.status != "judged" or base.symptoms:
            obs["base_not_clean"] += 1
            ci += 1
            continue
        for _ in range(3):
            cls = classes[ci % len(classes)]
            ci += 1
            names = collect_names(prog, db)
            m, positions = make_map(rng, names, cls)
            if not m:
                continue
            p2, db2 = rename(prog, db, m)
            try:
                src2 = grel.pp_program(p2)
            except ValueError:
                continue
            hostile = set(m.values())
            names2 = collect_names(p2, db2)
            user_all = set().union(*names2.values())
            w.db_open("h", grel.db_stmts(db2))
            o = relcheck.run_case(w, p2, db2, "h", dialect, src=src2, user_names=user_all)
            obs["cases"] += 1
            if cls == "generated":
                obs["collision_programs"] += 1
            symptoms = []
            if o.status == "rejected":
                # a rejection is not a wrong reference: counted, not judged (C09 speaks about emitted SQL)
                obs["rejected"] += 1
            elif o.status in ("panic", "abort"):
                symptoms.append(("renamed_panics", str(o.symptoms)[:200], (o.symptoms[0][0], o.symptoms[0][1])) if o.symptoms else ("renamed_panics", ""))
            elif o.status == "unspecified":
                obs["unspecified"] += 1
            elif o.status == "judged":
                obs["judged"] += 1
                for pos in positions:
                    obs["cells"].add((cls, pos))
                for (pp, sym, det) in o.symptoms:
                    if pp in ("C01", "C03", "C05", "C07"):
                        symptoms.append(("renamed_" + sym, det + " || sql: " + (o.sql or "")[:300], (pp, sym)))
            if rng.random() < 0.15:
                obs["static_checks"] += 1
                for (d2, sym, det) in static_check(w, src2, hostile, user_all, grel.pp_program(prog)):
                    symptoms.append((sym + "@" + d2, det))
            for item in symptoms:
                sym, det = item[0], item[1]
                under = item[2] if len(item) > 2 else None
                key = (sym.split("@")[0], cls, tuple(sorted(positions)))
                if key in seen:
                    continue
                seen.add(key)
                inh = c06.inherited(w, p2, db2, dialect, o, under) if under else "inherits:none"
                w.db_open("h", grel.db_stmts(db2))
                viols.append({"property": "C09", "symptom": sym, "shape": "%s :: %s/%s :: %s" % (dialect, cls, "+".join(sorted(positions)), inh.split(":from")[0][:40]),
                              "witness": {"prog": p2, "db": db2, "dialect": dialect, "class": cls, "map": [[list(k), v] for k, v in m.items()], "prql": src2},
                              "detail": det})
    w.close()
    obs["cells"] = [list(c) for c in obs["cells"]]
    return viols, obs


def run(tier, seed):
    run = core.Run("C09", tier, seed)
    N = core.NCPU
    n = 400 if tier == "quick" else 20000
    res = core.run_shards(_shard, [dict(seed=seed, shard=i, n_cases=n) for i in range(N)])
    obs = {"cells": set()}
    for v, o in res:
        run.extend(v)
        obs["cells"] |= set(tuple(c) for c in o.pop("cells"))
        core.merge_counts(obs, o)
    best = {}
    for v in run.violations:
        k = (v["symptom"], v["shape"])
        if k not in best:
            best[k] = v
    run.violations = list(best.values())
    cells = obs.pop("cells")
    run.coverage = {
        "evaluations": obs.get("cases", 0),
        "distinct_nontrivial": len(cells),
        "rule": "case = base program that agrees with the reference model, renamed by an injective map of tables / let names / aliases / columns to hostile identifiers of one class (SQL keywords, PRQL keywords, mixed case, spaces & punctuation, leading digits, $, non-ASCII, embedded quotes, and the compiler's own generated patterns table_N / _expr_N), executed against a database created with exactly those names; "
                "distinct non-trivial = distinct (identifier class, position) cells with at least one judged execution",
        "identifier_classes": sorted(POOLS),
        "samples": [],
    }
    run.coverage.update(obs)
    run.coverage["samples"] = [POOLS["quotes"][:3], POOLS["generated"][:3], "see replay files for renamed programs"]
    run.assumptions = c01.ASSUMPTIONS + [
        "renaming is semantics-preserving: the renamed program must compile, execute against the renamed database and agree with the model (result column names included)",
        "names within one program are distinct case-insensitively (SQLite folds case)",
        "static view for all 12 dialects (sampled): identifiers in the parsed statement are verbatim user names, and a hostile name is never emitted bare unless it is a plain lower-case word",
    ]
    return run


def replay(case):
    w = core.Worker()
    w.db_open("h", grel.db_stmts(case["db"]))
    names2 = collect_names(case["prog"], case["db"])
    user_all = set().union(*names2.values())
    o = relcheck.run_case(w, case["prog"], case["db"], "h", case["dialect"], user_names=user_all)
    out = []
    if o.status in ("panic", "abort"):
        out.append(("renamed_panics", str(o.symptoms)))
    else:
        for (pp, sym, det) in o.symptoms:
            if pp in ("C01", "C03", "C05", "C07"):
                out.append(("renamed_" + sym, det, (pp, sym)))
    hostile = {v for _, v in case.get("map", [])}
    for (d2, sym, det) in static_check(w, grel.pp_program(case["prog"]), hostile, user_all):
        out.append((sym + "@" + d2, det))
    res = []
    pos = "+".join(sorted({k[0] for k, _ in case.get("map", [])})) if case.get("map") else ""
    for item in out:
        s_, d = item[0], item[1]
        inh = c06.inherited(w, case["prog"], case["db"], case["dialect"], o, item[2]) if len(item) > 2 else "inherits:none"
        res.append({"property": "C09", "symptom": s_, "shape": "%s :: %s/%s :: %s" % (case["dialect"], case.get("class", "?"), pos, inh.split(":from")[0][:40]),
                    "witness": case, "detail": d})
    w.close()
    return res
