"""C10 — ill-scoped programs are rejected, never compiled to something else."""
import copy, re
from .. import core
from ..gen import grel

NONCOLLIDING = ["zz_missing", "qqq_nope", "no_such_col", "xcol9"]
STD_COLLIDING = ["count", "min", "max", "sum", "text", "date", "math", "average", "first", "rank", "lag", "std", "all", "any", "round", "abs",
                 "lower", "upper", "length", "now", "int", "float", "bool", "year", "that"]
ALL_TABLE_COLS = sorted({c for cols in grel.SCHEMA.values() for c, _ in cols})


def edits_dropped_column(rng, prog):
    """(a) reference a column that the (fully known) frame no longer has."""
    out = []
    cuts = [c for c in prog.get("cuts", []) if c["at"] >= 2]
    if not cuts:
        return out
    c = rng.choice(cuts)
    frame = {n for n, _ in c["cols"]}
    pools = [("noncolliding", [n for n in NONCOLLIDING if n not in frame]),
             ("dropped_table_column", [n for n in ALL_TABLE_COLS if n not in frame]),
             ("std_colliding", [n for n in STD_COLLIDING if n not in frame])]
    for pname, pool in pools:
        if not pool:
            continue
        name = rng.choice(pool)
        qual = None
        if pname == "dropped_table_column" and c["quals"] and rng.random() < 0.5:
            qual = rng.choice(c["quals"])
        ref = ["col", qual, name]
        use = rng.choice(["filter", "derive", "sort", "select", "group_key", "aggregate", "case_branch", "case_dead_after_true", "case_false_cond", "case_const_cond", "and_false", "or_true", "coalesce_dead", "in_bound", "join_cond", "group_body", "this_qualified", "sort_desc_expr", "window_fn", "group_aggregate_fn", "aggregate", "aggregate"])
        first = c["cols"][0][0]
        if pname == "std_colliding" and use in ("case_dead_after_true", "case_false_cond", "case_const_cond", "and_false", "or_true", "coalesce_dead"):
            # a name that also names a std function IS in scope (as that function); using a function as a value is a
            # type error that lowering reports only for code that survives constant folding, so in statically dead
            # code such a name is legitimately accepted: only genuinely unknown names are placed there
            use = "case_branch"
        if use == "filter":
            t = {"t": "filter", "cond": ["bin", ">", ref, ["lit", 1]]}
        elif use == "derive":
            t = {"t": "derive", "items": [["zq", ["bin", "+", ref, ["lit", 1]]]]}
        elif use == "sort":
            t = {"t": "sort", "keys": [[False, ref]]}
        elif use == "select":
            t = {"t": "select", "items": [[None, ref]]}
        elif use == "case_branch":
            t = {"t": "derive", "items": [["zq", ["case", [[["bin", "==", ["col", None, first], ["lit", None]], ["lit", 0]], [["lit", True], ref]]]]]}
        elif use == "case_dead_after_true":
            # statically dead code must still be well-scoped: a branch after the `true =>` default
            t = {"t": "derive", "items": [["zq", ["case", [[["bin", "==", ["col", None, first], ["lit", None]], ["lit", 0]], [["lit", True], ["lit", 1]],
                                                           [["bin", "!=", ["col", None, first], ["lit", None]], ref]]]]]}
        elif use == "case_false_cond":
            t = {"t": "derive", "items": [["zq", ["case", [[["lit", False], ref], [["lit", True], ["lit", 0]]]]]]}
        elif use == "case_const_cond":
            t = {"t": "derive", "items": [["zq", ["case", [[["bin", "==", ["lit", 1], ["lit", 2]], ref], [["lit", True], ["lit", 0]]]]]]}
        elif use == "and_false":
            t = {"t": "filter", "cond": ["bin", "&&", ["lit", False], ["bin", ">", ref, ["lit", 1]]]}
        elif use == "or_true":
            t = {"t": "filter", "cond": ["bin", "||", ["lit", True], ["bin", ">", ref, ["lit", 1]]]}
        elif use == "coalesce_dead":
            t = {"t": "derive", "items": [["zq", ["bin", "??", ["lit", 1], ref]]]}
        elif use == "in_bound":
            t = {"t": "filter", "cond": ["in", ["lit", 3], ["lit", 1], ref]}
        elif use == "join_cond":
            # the joined relation has a known frame too (an opaque table would legitimately own any bare name)
            t = {"t": "join", "src": {"k": "lit", "cols": ["zk"], "rows": [[1]]}, "alias": "zj", "side": "inner", "cond": ["bin", "==", ref, ["col", "zj", "zk"]]}
        elif use == "group_body":
            t = {"t": "group", "keys": [["col", None, first]], "pipe": [{"t": "derive", "items": [["zq", ["bin", "+", ref, ["lit", 1]]]]}]}
        elif use == "this_qualified":
            t = {"t": "derive", "items": [["zq", ["col", "this", name]]]}
        elif use == "sort_desc_expr":
            t = {"t": "sort", "keys": [[True, ["bin", "+", ref, ["lit", 1]]]]}
        elif use == "group_key":
            t = {"t": "group", "keys": [ref], "pipe": [{"t": "aggregate", "items": [["zn", ["agg", "count", None]]]}]}
        elif use == "window_fn":
            wf = rng.choice(["lag", "lead", "rank", "rank_dense", "first", "last"])
            use = "window_fn:" + wf
            t = {"t": "derive", "items": [["zq", ["win", wf, ([1, ref] if wf in ("lag", "lead") else [ref])]]]}
        elif use == "group_aggregate_fn":
            fn = rng.choice(["sum", "min", "max", "average", "count", "count_distinct"])
            use = "group_aggregate_fn:" + fn
            t = {"t": "group", "keys": [["col", None, first]], "pipe": [{"t": "aggregate", "items": [["zs", ["agg", fn, ref]]]}]}
        else:
            # every aggregation function takes the stale name as its direct argument (some discard their argument
            # after resolution - `count` - so nothing downstream would notice)
            fn = rng.choice(["sum", "min", "max", "average", "count", "count_distinct", "any", "all"])
            use = "aggregate:" + fn
            t = {"t": "aggregate", "items": [["zs", ["agg", fn, ref]]]}
        p = copy.deepcopy(prog)
        p["main"] = p["main"][:c["at"]] + [t]
        out.append((p, "dropped_column/%s%s/%s%s" % (pname, (":" + name) if pname == "std_colliding" else "", use, "/qualified" if qual else ""), name))
    return out


def text_edits(rng):
    """(b) (c) (d): programs written directly; each must be rejected."""
    out = []
    A = "(from t1 | select {id, a})"
    B = "(from t2 | select {id, c})"
    C = "(from t3 | select {id = k, d})"
    use = rng.choice(["derive {q = id}", "filter id > 1", "sort {id}", "select {id}", "group {id} (aggregate {n = count this})", "aggregate {m = max id}"])
    out.append(("from x = %s\njoin y = %s (x.id == y.id)\n%s\n" % (A, B, use), "ambiguous/2/" + use.split()[0], "id"))
    out.append(("from x = %s\njoin y = %s (x.id == y.id)\njoin z = %s (x.id == z.id)\n%s\n" % (A, B, C, use), "ambiguous/3/" + use.split()[0], "id"))
    out.append(("let la = %s\nlet lb = %s\nfrom la\njoin lb (la.id == lb.id)\n%s\n" % (A, B, use), "ambiguous/let/" + use.split()[0], "id"))
    out.append(("from x = %s\njoin side:left y = %s (x.id == y.id)\n%s\n" % (A, B, use), "ambiguous/left/" + use.split()[0], "id"))
    out.append(("from x = [{id = 1, a = 2}]\njoin y = [{id = 1, b = 3}] (x.id == y.id)\n%s\n" % use, "ambiguous/lit/" + use.split()[0], "id"))
    # the same ambiguity when one of the two candidates is an ALIAS (derived / renamed / aggregated column, which
    # lives directly in the frame) and the other a column of a named input (reached through the input's name)
    use2 = rng.choice(["select {x.k, a}", "filter a > 0", "sort {a}", "derive {q = a + 1}", "group {a} (aggregate {n = count this})", "aggregate {m = max a}"])
    u2 = use2.split()[0]
    out.append(("from x = [{k = 1, b = 2}]\nderive {a = b * 2}\njoin y = [{k = 1, a = 5}] (x.k == y.k)\n%s\n" % use2, "ambiguous/alias_left_derive/" + u2, "a"))
    out.append(("from x = [{k = 1, b = 2}]\nselect {x.k, a = x.b}\njoin y = [{k = 1, a = 5}] (x.k == y.k)\n%s\n" % use2, "ambiguous/alias_left_select/" + u2, "a"))
    out.append(("from x = [{k = 1, b = 2}, {k = 1, b = 3}]\ngroup {x.k} (aggregate {a = sum x.b})\njoin y = [{k = 1, a = 5}] (k == y.k)\n%s\n" % use2.replace("x.k", "y.k"), "ambiguous/alias_left_aggregate/" + u2, "a"))
    out.append(("from x = [{k = 1, a = 2}]\njoin (from [{k = 1, b = 5}] | select {k2 = k, a = b}) (x.k == k2)\n%s\n" % use2, "ambiguous/alias_right_select/" + u2, "a"))
    out.append(("from x = (from t1 | select {k, b})\nderive {a = b * 2}\njoin y = (from t2 | select {k, a}) (x.k == y.k)\n%s\n" % use2, "ambiguous/alias_left_table/" + u2, "a"))
    # a dropped column inside interpolated strings and other text-level positions (frames fully known)
    L = "from [{a = 1, b = 2}]\nselect {a}\n"
    for tag, tail in (("sstring", "derive {q = s\"{b} + 1\"}"), ("fstring", "derive {q = f\"x{b}\"}"), ("sstring_sort", "sort {s\"{b}\"}"), ("sstring_filter", "filter s\"{b} > 0\""),
                      ("that_outside_join", "derive {q = that.a}"), ("alias_after_select", "join y = [{a = 1, c = 3}] (==a)\nselect {a}\nderive {q = y.c}"),
                      ("right_via_left_name", "join y = [{a = 1, c = 3}] (==a)\nderive {q = x.c}"), ("group_inner_name_after", "group {a} (derive {inner = a + 1} | select {a})\nderive {q = inner}"),
                      ("wildcard_of_unknown_alias", "select {zz.*}"), ("param_outside", "derive {q = p0}")):
        src = (L if tag != "right_via_left_name" else "from x = [{a = 1, b = 2}]\n") + tail + "\n"
        if tag == "param_outside":
            src = "let f = p0 -> p0 + 1\n" + src
        out.append((src, "dropped_column/text/" + tag, None))
    # (c) arguments
    n = rng.randint(1, 3)
    out.append(("let f = a b -> a + b\nfrom t1\nderive {q = (f 1 2%s)}\n" % (" 3" * n), "surplus_positional/user_func/%d" % n, None))
    out.append(("let f = a b -> a + b\nfrom t1\nderive {q = (f nosuch:5 1 2)}\n", "unknown_named/user_func", None))
    out.append(("let f = a b:1 -> a + b\nfrom t1\nderive {q = (f bb:5 1)}\n", "unknown_named/user_func_with_named", None))
    out.append(("from t1\ntake 1 2\n", "surplus_positional/take", None))
    out.append(("from t1\nselect {id} {a}\n", "surplus_positional/select", None))
    out.append(("from t1\nfilter (a > 1) (b > 2)\n", "surplus_positional/filter", None))
    out.append(("from t1\nsort {a} {b}\n", "surplus_positional/sort", None))
    out.append(("from t1\naggregate {n = count this} {m = sum a}\n", "surplus_positional/aggregate", None))
    out.append(("from t1\nderive {q = (math.abs a b)}\n", "surplus_positional/std_func", None))
    out.append(("from t1\nderive {q = (sum a b)}\n", "surplus_positional/std_agg", None))
    out.append(("from t1\nsort zz:1 {a}\n", "unknown_named/sort", None))
    out.append(("from t1\ntake n:2 1\n", "unknown_named/take", None))
    out.append(("from t1\njoin nosuch:left t2 (==id)\n", "unknown_named/join", None))
    out.append(("from t1\nderive {q = (math.round nn:2 2 a)}\n", "unknown_named/std_func", None))
    out.append(("from t1\nwindow nosuch:3 (derive {s = sum a})\n", "unknown_named/window", None))
    out.append(("from t1\ngroup zz:1 {k} (aggregate {n = count this})\n", "unknown_named/group", None))
    # (d) relation / scalar confusion
    out.append(("from 5\n", "scalar_as_relation/from", None))
    out.append(("from \"x\"\n", "scalar_as_relation/from_string", None))
    out.append(("from t1\njoin 3 (true)\n", "scalar_as_relation/join", None))
    out.append(("from t1\nappend \"x\"\n", "scalar_as_relation/append", None))
    out.append(("from t1\nappend 5\n", "scalar_as_relation/append_int", None))
    out.append(("let five = 5\nfrom five\n", "scalar_as_relation/from_let", None))
    out.append(("from t1\nderive {q = (from t2)}\n", "relation_as_scalar/derive", None))
    out.append(("from t1\nfilter (from t2)\n", "relation_as_scalar/filter", None))
    out.append(("from t1\nderive {q = t2}\n", "relation_as_scalar/derive_table", None))
    out.append(("let u = (from t2 | select {id})\nfrom t1\nderive {q = u}\n", "relation_as_scalar/derive_let", None))
    out.append(("let u = (from t2 | select {id})\nfrom t1\nfilter a > u\n", "relation_as_scalar/compare_let", None))
    out.append(("from t1\nsort {(from t2)}\n", "relation_as_scalar/sort", None))
    out.append(("from t1\nselect {q = (from t2 | take 1)}\n", "relation_as_scalar/select_pipeline", None))
    return out


def judge(w, src, kind, name, reps=8):
    """-> (violation or None, info)"""
    accepted = []
    reasons = set()
    for i in range(reps):
        r = w.call({"op": "compile", "src": src, "target": ["sql.generic", "sql.postgres"][i % 2]})
        if "sql" in r:
            accepted.append(r["sql"])
        elif "errors" in r:
            for e in r["errors"] or []:
                reasons.add(re.sub(r"`[^`]*`", "`_`", e.get("reason", "?"))[:60])
        elif "panic" in r:
            reasons.add("PANIC")
    if accepted:
        sql = accepted[0]
        how = "unknown"
        if name is not None:
            how = "passed_through_to_sql" if re.search(r"\b%s\b" % re.escape(name), sql) else "bound_to_a_candidate_or_dropped"
        return ({"property": "C10", "symptom": "accepted:" + kind.split("/")[0], "shape": kind + ("/" + how if name else ""),
                 "witness": {"src": src, "kind": kind, "name": name},
                 "detail": "accepted in %d of %d compiles; sql: %s" % (len(accepted), reps, sql[:300])}, reasons)
    return None, reasons


def _shard(seed, shard, n_bases):
    rng = core.shard_rng(seed, "C10", shard)
    w = core.Worker()
    viols, seen = [], set()
    obs = {"edited_programs": 0, "compiles": 0, "rejected": 0, "bases": 0, "cells": set(), "reasons": {}}
    work = []
    for _ in range(n_bases):
        try:
            prog = grel.random_program(rng, rng.choice(["core", "project", "sort"]))
            src = grel.pp_program(prog)
        except (ValueError, IndexError):
            continue
        r = w.call({"op": "compile", "src": src, "target": "sql.generic"})
        if "sql" not in r:
            continue
        obs["bases"] += 1
        for (p2, kind, name) in edits_dropped_column(rng, prog):
            try:
                work.append((grel.pp_program(p2), kind, name))
            except ValueError:
                pass
    for _ in range(max(1, n_bases // 8)):
        work += text_edits(rng)
    for (src, kind, name) in work:
        v, reasons = judge(w, src, kind, name)
        obs["edited_programs"] += 1
        obs["compiles"] += 8
        obs["cells"].add(kind)
        for r in reasons:
            obs["reasons"][r] = obs["reasons"].get(r, 0) + 1
        if v is None:
            obs["rejected"] += 1
        else:
            key = (v["symptom"], v["shape"])
            if key not in seen:
                seen.add(key)
                viols.append(v)
    w.close()
    obs["cells"] = list(obs["cells"])
    return viols, obs


def run(tier, seed):
    run = core.Run("C10", tier, seed)
    N = core.NCPU
    n = 80 if tier == "quick" else 4000
    res = core.run_shards(_shard, [dict(seed=seed, shard=i, n_bases=n) for i in range(N)])
    obs = {"cells": set()}
    for v, o in res:
        run.extend(v)
        obs["cells"] |= set(o.pop("cells"))
        core.merge_counts(obs, o)
    best = {}
    for v in run.violations:
        k = (v["symptom"], v["shape"])
        if k not in best:
            best[k] = v
    run.violations = list(best.values())
    cells = obs.pop("cells")
    reasons = obs.pop("reasons", {})
    run.coverage = {
        "evaluations": obs.get("compiles", 0),
        "distinct_nontrivial": len(cells),
        "rule": "edited program = well-scoped base + one scope-breaking edit: (a) a reference — in filter / derive / sort / select / group key / aggregate — to a column absent from a fully known frame (names from a non-colliding pool, real table columns dropped earlier (bare or qualified), and names colliding with std functions/modules); (b) a bare name present in 2 or 3 joined relations with known frames; (c) surplus positional / unknown named arguments to user functions, std functions and transforms; (d) scalar where a relation is required and relation where a scalar is required; each compiled 8 times in one process (hash-order of candidates varies); "
                "distinct non-trivial = distinct (edit kind / name pool / enclosing transform) cells exercised",
        "error_reasons_seen": dict(sorted(reasons.items(), key=lambda kv: -kv[1])[:25]),
        "samples": [text_edits(core.shard_rng(seed, "C10", 0))[0][0], text_edits(core.shard_rng(seed, "C10", 0))[5][0]],
    }
    run.coverage.update(obs)
    run.assumptions = [
        "a frame is 'fully known' after select / aggregate / group-aggregate with named columns (the generator tracks this); tables themselves are opaque",
        "any Err is acceptable (the property asks for an error, not for a specific one); all 8 repetitions must be Err",
    ]
    return run


def replay(case):
    w = core.Worker()
    v, _ = judge(w, case["src"], case["kind"], case.get("name"), reps=16)
    w.close()
    return [v] if v else []
