"""C17 — tokens tile the source and re-lex to themselves.
Monitor: harness/pv-worker/src/c17.rs (runs on the output of the real
prql_to_tokens).  Workloads: exhaustive short strings over lexically
significant alphabets, random token-fragment strings, corpus."""
from .. import core, corpus

ALPHA_MAIN = "arsfex_01.\"'\\\n #`@-:{(é$+=&|?/*!<>~,\r\t"   # 36 symbols
ALPHA_WORD = "truenl+= 1.x"                                         # forms true / null / let + neighbours
FRAGMENTS = ["a", "foo", "_x", "`a b`", "let", "into", "case", "prql", "type", "module", "internal", "func", "import", "enum",
             "true", "false", "null", "1", "12", "1.5", "1e3", "1_000", "0x1f", "0b101", "0o17", "5days", "2hours",
             "@2020-01-01", "@12:30", "@2020-01-01T12:30:00", "@2020-01-01T12:30:00Z", "\"s\"", "'s'", "\"\"\"t\"\"\"", "r\"raw\"", "f\"a{b}\"", "s\"a{b}\"",
             "$1", "$name", "..", "->", "=>", "==", "!=", ">=", "<=", "~=", "&&", "||", "??", "//", "**", "@",
             ">", "<", "/", "%", "=", "+", "-", "*", "[", "]", "(", ")", ".", ",", ":", "|", "!", "{", "}",
             "# c", "#! d", "\n", "\r\n", "\n\\", "\n # c\n \\", " ", "\t", "é", "中", "\U0001f600", "é", " ", " ", "~", "&", "?", "\\", "\"", "'", "`", ";", "^"]


def _enum_shard(alphabet, min_len, max_len, shard, nshards):
    w = core.Worker()
    r = w.call({"op": "c17_enum", "alphabet": alphabet, "min_len": min_len, "max_len": max_len,
                "shard": shard, "nshards": nshards, "max_viol": 300}, timeout=3600)
    w.close()
    if "total" not in r:
        raise core.Inconclusive("c17_enum failed: %r" % (r,))
    return r


def _batch_shard(srcs):
    w = core.Worker()
    out = None
    for i in range(0, len(srcs), 2000):
        r = w.call({"op": "c17_batch", "srcs": srcs[i:i + 2000], "max_viol": 300}, timeout=600)
        if "total" not in r:
            # the batch died: attribute by bisecting one at a time
            for s in srcs[i:i + 2000]:
                r1 = w.call({"op": "c17_batch", "srcs": [s]}, timeout=20)
                if "total" not in r1:
                    r1 = {"total": 1, "accepted": 0, "rejected": 0, "tokens": 0, "multibyte_tokens": 0, "space": 1,
                          "viol_count": {"abort": 1}, "violations": [{"src": s, "clause": "abort", "detail": str(r1)[:300]}], "adjacency": []}
                out = _merge(out, r1)
            continue
        out = _merge(out, r)
    w.close()
    return out


def _merge(a, b):
    if a is None:
        b = dict(b)
        b["adjacency"] = {(x[0], x[1], x[2]): x[3] for x in b["adjacency"]}
        return b
    for k in ("total", "accepted", "rejected", "tokens", "multibyte_tokens", "space"):
        a[k] = a.get(k, 0) + b.get(k, 0)
    for k, v in b["viol_count"].items():
        a["viol_count"][k] = a["viol_count"].get(k, 0) + v
    a["violations"].extend(b["violations"])
    adj = b["adjacency"]
    if isinstance(adj, list):
        adj = {(x[0], x[1], x[2]): x[3] for x in adj}
    for k, v in adj.items():
        a["adjacency"][k] = a["adjacency"].get(k, 0) + v
    return a


def random_strings(rng, n):
    out = []
    for _ in range(n):
        k = rng.randint(1, 10)
        parts = []
        for _ in range(k):
            parts.append(rng.choice(FRAGMENTS))
            if rng.random() < 0.35:
                parts.append(rng.choice([" ", "  ", "\t", " \t"]))
        out.append("".join(parts))
    return out


def pair_strings():
    out = []
    for a in FRAGMENTS:
        for b in FRAGMENTS:
            out.append(a + b)
            out.append(a + " " + b)
    return out


UNICODE_SPECIAL = ["\ufeff", "\u200b", "\u00a0", "\u2028", "\u2029", "\u0085", "\u200f", "\u202e", "\x0b", "\x0c", "\x00", "\x1a", "\ufffd",
                   "\u0301", "\U0001f600", "\u00df", "\u3000", "\u00ad", "\ufe0f", "\U000e0001"]


def unicode_special_strings():
    """Code points that editors, operating systems and normalisers treat specially (byte order mark, zero-width and
    no-break spaces, line / paragraph separators, NEL, bidi marks, NUL, Ctrl-Z, replacement character, combining and
    4-byte characters) at the very start, after the first token, before a line break, inside a string / comment,
    and at the end of short sources."""
    bases = ["from a", "from a\nselect b", "let x = 1", "from t | filter a > 1 # c\nsort b", "select {s = \"q\"}", "a", "1..2", "@2020-01-01", "f\"{a}\"", "#! d\nfrom t", ""]
    out = []
    for u in UNICODE_SPECIAL:
        for b in bases:
            out.append(u + b)
            out.append(u + u + b)
            out.append(u + "\n" + b)
            out.append(b + u)
            out.append(b + "\n" + u)
            if " " in b:
                i = b.index(" ")
                out.append(b[:i] + u + b[i:])
                out.append(b[:i + 1] + u + b[i + 1:])
            if "\n" in b:
                i = b.index("\n")
                out.append(b[:i] + u + b[i:])
            if "\"" in b:
                i = b.index("\"") + 1
                out.append(b[:i] + u + b[i:])
            if "#" in b:
                i = b.index("#") + 1
                out.append(b[:i] + u + b[i:])
    return out


def run(tier, seed):
    run = core.Run("C17", tier, seed)
    N = core.NCPU
    if tier == "quick":
        plans = [(ALPHA_MAIN, 0, 4), (ALPHA_WORD, 5, 6)]
        n_random = 150_000
    else:
        plans = [(ALPHA_MAIN, 0, 5), (ALPHA_WORD, 6, 8)]
        n_random = 3_000_000
    total = None
    exhaustive_sizes = []
    for (alpha, lo, hi) in plans:
        res = core.run_shards(_enum_shard, [dict(alphabet=alpha, min_len=lo, max_len=hi, shard=i, nshards=N) for i in range(N)])
        n = sum(r["total"] for r in res)
        exhaustive_sizes.append({"alphabet": alpha, "min_len": lo, "max_len": hi, "strings": n})
        for r in res:
            total = _merge(total, r)
    n_exhaustive = total["total"]
    # pairs of fragments + random sequences + corpus
    rng = core.shard_rng(seed, "C17", 0)
    srcs = pair_strings() + unicode_special_strings() + corpus.sources()
    for s in corpus.sources():
        # prefixes of corpus programs stress unterminated constructs
        for _ in range(3):
            cut = rng.randint(0, len(s))
            srcs.append(s[:cut])
    srcs += random_strings(rng, n_random)
    chunks = [srcs[i::N] for i in range(N)]
    res = core.run_shards(_batch_shard, [dict(srcs=c) for c in chunks])
    for r in res:
        total = _merge(total, r)

    # violations: one record per (clause) class, shortest witness
    by = {}
    for v in total["violations"]:
        c = v["clause"]
        if c not in by or len(v["src"]) < len(by[c]["src"]):
            by[c] = v
    for c, v in sorted(by.items()):
        sym, _, shape = c.partition("\x01")
        run.add_violation(sym, shape, {"src": v["src"]}, v["detail"])
    # classes counted but without a kept witness would be a harness bug
    for c in total["viol_count"]:
        if c not in by:
            run.add_violation(c.partition("\x01")[0], c.partition("\x01")[2], {"src": None}, "witness not retained")
    # Miri phase: the same monitor over a shard of short hostile strings, with the interpreter watching the lexer
    # (and chumsky's unsafe code under it) for undefined behaviour
    miri_info = {"status": "not_run"}
    import os
    if tier != "quick" or os.environ.get("PV_MIRI"):
        from ..mon import miri
        mrng = core.shard_rng(seed, "C17:miri", 0)
        pool = [s for s in pair_strings() if len(s) <= 24] + [s[:mrng.randint(1, 40)] for s in corpus.sources()]
        pool += ["".join(mrng.choice(ALPHA_MAIN) for _ in range(mrng.randint(1, 6))) for _ in range(400)]
        n_m = 640 if tier != "quick" else 64
        msrcs = mrng.sample(pool, min(n_m, len(pool)))
        mv, mres = miri.run_phase("c17", msrcs, 40 if tier != "quick" else 4, miri_info, "C17")
        run.extend(mv)
        for s_, r_ in zip(msrcs, mres):
            if isinstance(r_, dict):
                for v in r_.get("violations", []):
                    sym, _, shape = v["clause"].partition("\x01")
                    run.add_violation(sym, shape, {"src": s_}, "(under Miri) " + v["detail"])
    adj = total["adjacency"]
    kinds = sorted({k[0] for k in adj} | {k[1] for k in adj})
    run.coverage = {
        "evaluations": total["total"],
        "distinct_nontrivial": total["accepted"],
        "rule": "every string is distinct by construction for the exhaustive part (all strings up to the stated length over the stated alphabets); "
                "non-trivial = accepted by the lexer, so that the tiling/re-lex clauses were actually evaluated on its tokens "
                "(rejected strings only exercise the 'at least one error, no tokens' clause). Random strings may repeat; they are counted in evaluations only once generated.",
        "exhaustive": True,
        "exhaustive_spaces": exhaustive_sizes,
        "exhaustive_strings": n_exhaustive,
        "random_and_corpus_strings": len(srcs),
        "accepted": total["accepted"], "rejected": total["rejected"],
        "tokens_checked": total["tokens"], "tokens_in_non_ascii_sources": total["multibyte_tokens"],
        "token_kinds_seen": kinds,
        "adjacency_cells_seen": len(adj),
        "adjacency_cells_without_whitespace": sum(1 for k in adj if not k[2]),
        "violations_by_clause": total["viol_count"],
        "miri": miri_info,
        "samples": [s for s in srcs[-5:]] + ["tr ue+1", ALPHA_MAIN[:6]],
    }
    run.assumptions = [
        "token spans are byte offsets into the UTF-8 source (as returned by prql_to_tokens); 'character boundary' = str::is_char_boundary",
        "inline whitespace = Unicode White_Space except line terminators (LF, CR, VT, FF, NEL, LS, PS)",
        "'same token' = equal TokenKind (PartialEq), span of the isolated lex covering the whole slice",
        "Miri phase (thorough tier, or PV_MIRI=1): coverage.miri.status is 'ran' only if the interpreter reported its self-test (an out-of-bounds read); 'unavailable' / 'not_effective' mean no verdict from that phase. No report on N sources is not a proof of memory safety",
        "leading text before the first token and trailing text after the last are held to the same 'only inline whitespace' rule as gaps",
    ]
    return run


def _shape(src):
    return ""


def replay(case):
    if case.get("miri"):
        from ..mon import miri
        return miri.replay(case["miri"], case["src"], "C17")
    w = core.Worker()
    r = w.call({"op": "tokens", "src": case["src"]})
    w.close()
    out = []
    if "abort" in r or "panic" in r:
        return [{"symptom": "abort" if "abort" in r else "panic", "shape": "", "witness": case, "detail": str(r)[:400]}]
    for v in r.get("violations", []):
        sym, _, shape = v["clause"].partition("\x01")
        out.append({"symptom": sym, "shape": shape, "witness": case, "detail": v["detail"]})
    return out
