"""C12 — no input makes a public entry point panic, abort or hang.
Oracle: panic hook + catch_unwind inside the worker, process exit status for aborts, and
*logical* cost (allocation count / bytes, deterministic) for the time bound."""
import math, json
from .. import core, corpus
from ..gen import grel, gtext, gfeat, gnest

ENTRIES_SRC = ["tokens", "pl", "fmt", "rq", "compile"]
MAX_N = 4096


def call_entry(w, entry, src, target=None, timeout=10.0):
    req = {"op": "entry", "entry": entry, "src": src}
    if target:
        req["target"] = target
    return w.call(req, timeout=timeout)


def classify(r, entry, src, target, extra=None, origin=None):
    """-> violation dict or None.  origin: corpus / grel (well-formed inputs), mutant / random / json (malformed)."""
    wit = {"entry": entry, "src": src, "target": target}
    if extra:
        wit.update(extra)
    if origin:
        wit["origin"] = origin
    if "panic" in r:
        return {"property": "C12", "symptom": core.panic_sig(r["panic"]), "shape": entry + ((":" + origin) if origin else ""), "witness": wit,
                "detail": r["panic"].get("msg", "")[:300]}
    if "abort" in r:
        fam = (extra or {}).get("family", "input")
        if extra and "n" in extra:
            fam += "@n>=256" if extra["n"] >= 256 else "@n<256"
        return {"property": "C12", "symptom": "abort:" + r["abort"].get("kind", "?"), "shape": "%s:%s" % (entry, fam), "witness": wit,
                "detail": "exit %s: %s" % (r["abort"].get("returncode"), r["abort"].get("stderr", "")[-200:])}
    if r.get("ok") is False and r.get("empty_reason"):
        return {"property": "C12", "symptom": "error_without_reason", "shape": entry + ((":" + origin) if origin else ""), "witness": wit, "detail": str(r)[:200]}
    return None


def confirm_hang(entry, src, target, opts=None):
    """A watchdog on a WELL-FORMED input (corpus / generated / feature program) of modest size is re-examined
    in a fresh process with a 60 s limit: if the process burns >= 40 s of CPU on it without answering, that is
    a hang (CPU time, not wall time, so a loaded machine cannot produce it; the same entry points answer
    inputs of this size in milliseconds).  Malformed inputs are not judged this way: error recovery is known
    to be exponential (KF-C12-3) and is measured by the size families instead."""
    if len(src.encode("utf-8")) > 4096:
        return None
    w = core.Worker()
    try:
        if opts is not None:
            req = {"op": "compile", "src": src, "target": target}
            req.update(opts)
            r = w.call(req, timeout=60.0)
        else:
            r = call_entry(w, entry, src, target, timeout=60.0)
    finally:
        w.close()
    if "watchdog" in r and (r.get("cpu_s") or 0) >= 40.0:
        return {"property": "C12", "symptom": "hang:cpu>=40s", "shape": entry + ":wellformed",
                "witness": {"entry": entry, "src": src, "target": target, "opts": opts, "origin": "feature", "hang": True},
                "detail": "no answer after 60 s, %.0f s of CPU used, input of %d bytes" % (r["cpu_s"], len(src))}
    return None


def _src_shard(items, targets):
    w = core.Worker()
    viols = []
    obs = {"calls": 0, "inputs": len(items), "ok": 0, "err": 0, "panics": 0, "aborts": 0, "watchdog": 0, "by_entry": {}, "by_origin": {}}
    seen_sites = set()
    for idx, (src, origin) in enumerate(items):
        ts = [targets[(idx + k) % len(targets)] for k in range(3)] if len(targets) > 3 else targets
        plan = [(e, None) for e in ENTRIES_SRC[:-1]] + [("compile", t) for t in ts]
        if origin == "mistake":
            # wrong in type / arity / place: the stages after parsing are what these reach
            plan = [("fmt", None), ("compile", ts[0]), ("compile", ts[1 % len(ts)])]
        for (entry, target) in plan:
            r = call_entry(w, entry, src, target)
            obs["calls"] += 1
            obs["by_entry"][entry] = obs["by_entry"].get(entry, 0) + 1
            if "watchdog" in r:
                obs["watchdog"] += 1
                if origin in ("corpus", "grel") and obs.get("hang_confirmations", 0) < 3:
                    obs["hang_confirmations"] = obs.get("hang_confirmations", 0) + 1
                    hv = confirm_hang(entry, src, target)
                    if hv:
                        viols.append(hv)
                continue
            if r.get("ok") is True:
                obs["ok"] += 1
                obs["by_origin"][origin] = obs["by_origin"].get(origin, 0) + 1
            elif r.get("ok") is False:
                obs["err"] += 1
            v = classify(r, entry, src, target, origin=origin)
            if v:
                obs["panics" if "panic" in r else "aborts"] += 1
                key = (v["symptom"], v["shape"])
                if key not in seen_sites:
                    seen_sites.add(key)
                    # shrink the witness (token-level ddmin) while the same site fires
                    toks = gtext.tokens(src)
                    if "panic" in r and len(toks) > 3:
                        sym = v["symptom"]

                        def fails(ts_):
                            rr = call_entry(w, entry, "".join(ts_), target)
                            return "panic" in rr and core.panic_sig(rr["panic"]) == sym
                        small = core.ddmin(toks, fails, max_tests=150)
                        v["witness"]["src"] = "".join(small)
                    viols.append(v)
                else:
                    v["dup"] = True
                    v["witness"] = None
                    viols.append(v)
            if "abort" in r or "panic" in r and entry != "compile":
                pass
    w.close()
    return viols, obs


def _feat_shard(items, targets):
    """Well-formed unusual programs: every entry point, every dialect, with and without formatting / signature."""
    w = core.Worker()
    viols = []
    obs = {"feature_calls": 0, "feature_programs": len(items), "feature_ok": 0, "feature_err": 0, "feature_tags": {}, "watchdog": 0}
    seen = set()
    for (tag, src) in items:
        plan = [("entry", e, None, None) for e in ENTRIES_SRC[:-1]]
        for t in targets:
            plan.append(("compile", "compile", t, {}))
        plan.append(("compile", "compile", "sql.generic", {"format": True, "signature": True}))
        plan.append(("compile", "compile", "sql.sqlite", {"format": True, "display": "ansi_color"}))
        anyok = False
        for (kind, entry, target, opts) in plan:
            if kind == "entry":
                r = call_entry(w, entry, src, target)
            else:
                req = {"op": "compile", "src": src, "target": target}
                req.update(opts)
                r = w.call(req, timeout=10.0)
                if "sql" in r:
                    r = dict(r, ok=True)
                elif "errors" in r:
                    r = dict(r, ok=False, empty_reason=any(not (e.get("reason") or "").strip() for e in r["errors"]) or not r["errors"])
            obs["feature_calls"] += 1
            if "watchdog" in r:
                obs["watchdog"] += 1
                if obs.get("hang_confirmations", 0) < 3:
                    obs["hang_confirmations"] = obs.get("hang_confirmations", 0) + 1
                    hv = confirm_hang(entry, src, target, opts if kind == "compile" else None)
                    if hv and (hv["symptom"], hv["shape"]) not in seen:
                        seen.add((hv["symptom"], hv["shape"]))
                        viols.append(hv)
                continue
            if r.get("ok") is True:
                obs["feature_ok"] += 1
                anyok = True
            elif r.get("ok") is False:
                obs["feature_err"] += 1
            v = classify(r, entry, src, target, extra={"opts": opts} if opts else None, origin="feature")
            if v:
                key = (v["symptom"], v["shape"])
                if key in seen:
                    v["witness"] = None
                seen.add(key)
                viols.append(v)
        if anyok:
            obs["feature_tags"][tag] = obs["feature_tags"].get(tag, 0) + 1
    w.close()
    return viols, obs


def _family_shard(fams, entries):
    w = core.Worker()
    viols = []
    obs = {"family_calls": 0, "families": {}, "watchdog": 0}
    for name in fams:
        f = gtext.FAMILIES[name]
        for entry in entries:
            series = []
            n = 1
            stopped = None
            while n <= MAX_N:
                src = f(n)
                r = call_entry(w, entry, src, "sql.generic" if entry == "compile" else None, timeout=20.0)
                obs["family_calls"] += 1
                if "watchdog" in r:
                    obs["watchdog"] += 1
                    stopped = ("watchdog", n)
                    break
                v = classify(r, entry, src if len(src) < 400 else None, None, {"family": name, "n": n})
                if v:
                    viols.append(v)
                    stopped = ("violation", n)
                    break
                c = r.get("cost", {})
                series.append((n, len(src), c.get("allocs", 0), c.get("bytes", 0)))
                n *= 2
            # growth on logical cost, relative to input LENGTH
            worst_ratio, expo = 0.0, 0.0
            pts = [(L, a) for (_, L, a, _) in series if a > 0]
            for (L1, a1), (L2, a2) in zip(pts, pts[1:]):
                if L2 > L1 and a1 > 2000:
                    worst_ratio = max(worst_ratio, (a2 / a1) / 1.0)
                    e = math.log(a2 / a1) / math.log(L2 / L1) if a2 > a1 else 0.0
                    if L1 >= 64:
                        expo = max(expo, e)
            obs["families"]["%s:%s" % (name, entry)] = {"max_n_completed": series[-1][0] if series else 0,
                                                        "stopped": stopped, "max_step_ratio": round(worst_ratio, 2),
                                                        "max_local_exponent": round(expo, 2)}
            if worst_ratio > 16 or expo > 3.2:
                viols.append({"property": "C12", "symptom": "superpoly", "shape": "%s:%s" % (entry, name),
                              "witness": {"entry": entry, "family": name, "series": series},
                              "detail": "allocation count grows faster than cubic: step ratio %.1f local exponent %.2f" % (worst_ratio, expo)})
    w.close()
    return viols, obs


def mutate_json(rng, doc):
    """Structural mutation of a JSON document (PL or RQ)."""
    paths = []

    def walk(v, path):
        paths.append(path)
        if isinstance(v, dict):
            for k in v:
                walk(v[k], path + [k])
        elif isinstance(v, list):
            for i in range(len(v)):
                walk(v[i], path + [i])
    walk(doc, [])
    if len(paths) < 2:
        return doc
    path = rng.choice(paths[1:])
    parent = doc
    for p in path[:-1]:
        parent = parent[p]
    key = path[-1]
    cur = parent[key]
    k = rng.random()
    if k < 0.2:
        if isinstance(parent, dict):
            del parent[key]
        else:
            parent.pop(key)
    elif k < 0.35:
        parent[key] = None
    elif k < 0.55 and isinstance(cur, str):
        parent[key] = rng.choice(["", "std.nosuch", cur.replace("std.", ""), cur + "x", "add", "std.add", "std.sum", "this", "*", "a.b", "\U0001f600"])
    elif k < 0.75 and isinstance(cur, (int, float)) and not isinstance(cur, bool):
        parent[key] = rng.choice([0, -1, cur + 1, cur + 1000, 2 ** 63, 1.5, 65535])
    elif k < 0.85 and isinstance(cur, list):
        if cur:
            if rng.random() < 0.5:
                cur.append(json.loads(json.dumps(cur[0])))
            else:
                cur.clear()
        else:
            cur.append(None)
    elif k < 0.92 and isinstance(cur, dict) and cur:
        kk = rng.choice(list(cur.keys()))
        cur[kk + "_x"] = cur.pop(kk)
    else:
        other = rng.choice(paths[1:])
        sub = doc
        try:
            for p in other:
                sub = sub[p]
            parent[key] = json.loads(json.dumps(sub))
        except Exception:
            parent[key] = []
    return doc


def _json_shard(seed, shard, srcs, n_mut, targets):
    rng = core.shard_rng(seed, "C12json", shard)
    w = core.Worker()
    viols = []
    obs = {"json_calls": 0, "json_docs": 0, "json_ok": 0, "json_err": 0}
    seen = set()
    for src in srcs:
        d = w.call({"op": "docs", "src": src})
        if "pl" not in d:
            continue
        obs["json_docs"] += 1
        for kind, entries in (("pl", ["json_pl", "json_pl_fmt"]), ("rq", ["json_rq"])):
            base = json.loads(d[kind])
            for m in range(n_mut + 1):
                doc = json.loads(json.dumps(base))
                if m > 0:
                    for _ in range(rng.randint(1, 2)):
                        doc = mutate_json(rng, doc)
                text = json.dumps(doc)
                for entry in entries:
                    t = rng.choice(targets)
                    r = call_entry(w, entry, text, t)
                    obs["json_calls"] += 1
                    if r.get("ok") is True:
                        obs["json_ok"] += 1
                    elif r.get("ok") is False:
                        obs["json_err"] += 1
                    v = classify(r, entry, text, t, origin="json")
                    if v:
                        key = (v["symptom"], v["shape"])
                        if key in seen:
                            v["dup"] = True
                            v["witness"] = None
                        seen.add(key)
                        viols.append(v)
    w.close()
    return viols, obs


def run(tier, seed):
    run = core.Run("C12", tier, seed)
    rng = core.shard_rng(seed, "C12", 0)
    N = core.NCPU
    targets = ["sql." + d for d in core.DIALECTS]
    items = [(s, "corpus") for s in corpus.sources()]
    n_rel = 450 if tier == "quick" else 12000
    for prof in ("core", "window", "project", "sort"):
        items += [(grel.random_program_text(rng, prof), "grel") for _ in range(n_rel // 4)]
    base = [s for s, _ in items]
    # every expression kind in every syntactic slot (most do not resolve: the error paths of every stage are driven)
    items += [(src, "gnest") for _, src in (gnest.two_level() if tier == "quick" else gnest.programs(3))]
    items += [(src, "gnest") for _, src in gnest.ident_programs()] + [(src, "gnest") for _, src in gnest.type_programs()]
    # well-formed text that is wrong in type, arity or place (plausible user mistakes): never attributed to KF-C12-9
    from ..gen import gmistake
    mistakes = gmistake.programs(tier)
    items += [(src, "mistake") for _, src in mistakes]
    n_mut = 4000 if tier == "quick" else 150000
    for _ in range(n_mut):
        items.append((gtext.mutate(rng, rng.choice(base), rng.choice([1, 1, 2, 3])), "mutant"))
    for _ in range(n_mut // 10):
        items.append((gtext.random_source(rng, rng.randint(1, 30)), "random"))
    res = core.run_shards(_src_shard, [dict(items=items[i::N], targets=targets) for i in range(N)])
    obs = {}
    for v, o in res:
        run.extend(v)
        core.merge_counts(obs, o)
    feats = gfeat.programs()
    # the schema-based feature programs of C07 (set operations incl. tops with compiler-added columns, let readers, loops):
    # well-formed programs that take the less travelled paths of the SQL back-end
    from . import c07
    feats = feats + [("c07:%d" % i, src) for i, src in enumerate(c07.FEATURES_DB)]
    res = core.run_shards(_feat_shard, [dict(items=feats[i::N], targets=targets) for i in range(N)])
    for v, o in res:
        run.extend(v)
        core.merge_counts(obs, o)
    fams = sorted(gtext.FAMILIES)
    res = core.run_shards(_family_shard, [dict(fams=fams[i::N], entries=["tokens", "pl", "fmt", "compile"]) for i in range(N)])
    for v, o in res:
        run.extend(v)
        core.merge_counts(obs, o)
    jsrcs = [s for s in corpus.sources() if len(s) < 800]
    rng.shuffle(jsrcs)
    jsrcs = jsrcs[:120 if tier == "quick" else 700]
    res = core.run_shards(_json_shard, [dict(seed=seed, shard=i, srcs=jsrcs[i::N], n_mut=8 if tier == "quick" else 60, targets=targets) for i in range(N)])
    for v, o in res:
        run.extend(v)
        core.merge_counts(obs, o)
    # Miri phase: lexer -> parser -> formatter -> parser on short sources (well-formed, mutated, token soup) with the
    # interpreter watching for undefined behaviour in the code reached (chumsky's unsafe code in particular)
    miri_info = {"status": "not_run"}
    import os
    if tier != "quick" or os.environ.get("PV_MIRI"):
        from ..mon import miri
        mrng = core.shard_rng(seed, "C12:miri", 0)
        short = [s for s, _ in items if len(s) <= 90]
        pool = mrng.sample(short, min(len(short), 400)) + [gtext.FAMILIES[f](n) for f in sorted(gtext.FAMILIES) for n in (1, 3)]
        pool = [s for s in pool if len(s) <= 120]
        n_m = 192 if tier != "quick" else 32
        msrcs = mrng.sample(pool, min(n_m, len(pool)))
        mv, mres = miri.run_phase("parse", msrcs, 12 if tier != "quick" else 2, miri_info, "C12")
        run.extend(mv)
        for s_, r_ in zip(msrcs, mres):
            if r_ == "panic":
                run.add_violation("panic@miri:parse_chain", "parse", {"src": s_, "entry": "pl", "origin": "miri"}, "prql_to_pl / pl_to_prql panicked under Miri")
            elif r_ == "err:empty":
                run.add_violation("empty_error", "parse", {"src": s_, "entry": "pl", "origin": "miri"}, "rejected without a reason (under Miri)")
        miri_info["outcomes"] = {k: sum(1 for r_ in mres if r_ == k) for k in set(r_ for r_ in mres if isinstance(r_, str))}
    # keep one witness per class
    best = {}
    for v in run.violations:
        k = (v["symptom"], v["shape"])
        if k not in best or (best[k].get("witness") is None and v.get("witness")):
            best[k] = v
    run.violations = list(best.values())
    fam = obs.pop("families", {})
    run.coverage = {
        "evaluations": obs.get("calls", 0) + obs.get("family_calls", 0) + obs.get("json_calls", 0) + obs.get("feature_calls", 0),
        "distinct_nontrivial": obs.get("ok", 0) and len({s for s, o in items}),
        "rule": "one evaluation = one guarded call of one public entry point (prql_to_tokens, prql_to_pl, pl_to_prql, pl_to_rq, compile per dialect, json::to_pl/to_rq followed by the next stage) on one input; "
                "distinct non-trivial = distinct source strings fed to the entry points (corpus, random relational programs, token-level mutants, random token soup), counted only if at least one call returned Ok",
        "families": fam,
        "families_run": len(fam),
        "max_n": MAX_N,
        "miri": miri_info,
        "samples": [items[0][0], items[len(base) + 1][0], items[-1][0], gtext.FAMILIES["nested_case"](3)],
    }
    run.coverage.update(obs)
    run.assumptions = [
        "worker built with debug-assertions and overflow-checks on (superset of the panics of dev and release builds)",
        "requests run on the worker's main thread (8 MiB stack, the default a CLI user gets); stack exhaustion for any family size n <= 4096 is a violation, n > 4096 unexplored",
        "time bound decided on allocation count (deterministic): between successive doublings of a family the count may grow at most 16x and the local exponent w.r.t. input length must stay <= 3.2; the 10-20 s wall watchdog only yields 'inconclusive' for that size",
        "a returned Err must carry at least one error with a non-empty reason",
        "Miri phase (thorough tier, or PV_MIRI=1): coverage.miri.status is 'ran' only if the interpreter reported its self-test (an out-of-bounds read); otherwise that phase decides nothing. No report on N sources is not a proof of memory safety",
        "hang: a well-formed input (corpus / generated / feature program) under 4 KiB that gets no answer within 10 s is re-run in a fresh process; >= 40 s of CPU time without an answer is a violation (at most 3 such confirmations per shard); watchdogs on malformed inputs stay inconclusive-counted",
    ]
    return run


def replay(case):
    if case.get("miri"):
        from ..mon import miri
        return miri.replay(case["miri"], case["src"], "C12")
    w = core.Worker()
    if case.get("src") is None and case.get("family"):
        src = gtext.FAMILIES[case["family"]](case["n"])
    else:
        src = case.get("src", "")
    if "series" in case:
        w.close()
        v, _ = _family_shard([case["family"]], [case["entry"]])
        return v
    if case.get("hang"):
        w.close()
        v = confirm_hang(case["entry"], src, case.get("target"), case.get("opts"))
        return [v] if v else []
    if case.get("opts"):
        req = {"op": "compile", "src": src, "target": case.get("target")}
        req.update(case["opts"])
        r = w.call(req, timeout=20.0)
    else:
        r = call_entry(w, case["entry"], src, case.get("target"), timeout=20.0)
    w.close()
    v = classify(r, case["entry"], src, case.get("target"), {"family": case["family"], "n": case["n"]} if case.get("family") else None, origin=case.get("origin"))
    return [v] if v else []
