"""C16 — every emitted RQ is closed and consistently identified.
Monitor: harness/pv-worker/src/rqcheck.rs over the public ir::rq types."""
from .. import core, relcheck, corpus
from . import c01

PROPS = {"C16"}
ASSUMPTIONS = [
    "'visible at that point of its pipeline' is read as: defined earlier in the same pipeline (table-ref column or compute); a column hidden by an intermediate Select may still be referenced (e.g. Take.sort)",
    "Loop bodies are exempt from the from/select framing rule (their lowering drops both by design) but not from id rules",
    "the columns of the table instance introduced by an Append are not visible to later transforms of that pipeline (the pipeline keeps the top relation's columns; the SQL back-end's determine_select_columns ignores them too)",
    "table ids must be declared earlier in `tables` than the table that references them; the main relation may reference any declared table",
]


def _corpus_shard(srcs):
    w = core.Worker()
    viols, n, ok = [], 0, 0
    kinds = {}
    for s in srcs:
        r = w.call({"op": "compile", "src": s, "rq": True})
        n += 1
        rc = r.get("rqcheck")
        if rc:
            ok += 1
            for k, v in rc["kinds"].items():
                kinds[k] = kinds.get(k, 0) + v
            for v in rc["violations"]:
                viols.append({"property": "C16", "symptom": "rq:" + v.split(":")[0], "shape": "corpus",
                              "witness": {"src": s}, "detail": v})
    w.close()
    return viols, {"corpus_programs": n, "corpus_rqs": ok, "corpus_kinds": kinds}


def feature_programs():
    """Language features the relational generator does not write: inline sub-pipelines nested two and three levels deep
    (the middle relation passing the inner columns on without naming them), functions over relations (parameter
    used once / twice / as join or append operand), scalar lets used in several pipelines, loops, set operations,
    let readers, and the feature programs of C07 / G-feat.  -> [(family, source)]"""
    from . import c07
    from ..gen import gfeat
    out = []
    inner = {"derive": "from v | derive {w = c * 2}", "plain": "from v", "select": "from v | select {b, c, w = c + 1}", "agg": "from v | group b (aggregate {w = sum c})",
             "take": "from v | sort c | take 5 | derive {w = c}"}
    mids = {"filter": "filter u.d > 0", "sort": "sort u.d", "take": "take 10", "none": "", "join": "join x (u.a == x.a)", "derive": "derive {e = u.d + 1}",
            "select_all": "select {u.a, u.b, u.d, w}", "sort_take": "sort {-u.d} | take 3"}
    outers = {"filter_w": "filter w > 10", "select_w": "select {t.a, w}", "wild": "", "sort_w": "sort w | take 2", "derive_w": "derive {q = w + 1} | filter q > 0",
              "group_w": "group t.a (aggregate {m = max w})", "window_w": "derive {r = rank w}"}
    for side in ("", "side:left "):
        for ik, isrc in inner.items():
            for mk, m in mids.items():
                for ok_, o in outers.items():
                    if side and (ik not in ("derive", "agg") or mk in ("derive", "select_all")):
                        continue
                    mid = "from u | join (%s) (u.b == v.b)%s" % (isrc, (" | " + m) if m else "")
                    out.append(("nested2:%s:%s:%s" % (ik, mk, ok_), "from t | join %s(%s) (t.a == u.a)%s" % (side, mid, (" | " + o) if o else "")))
    for ik, isrc in inner.items():
        for ok_, o in outers.items():
            lvl3 = "from y | join (from u | join (%s) (u.b == v.b) | filter u.d > 0) (y.a == u.a) | sort y.a" % isrc
            out.append(("nested3:%s:%s" % (ik, ok_), "from t | join (%s) (t.a == y.a)%s" % (lvl3, (" | " + o) if o else "")))
            out.append(("nested_append:%s:%s" % (ik, ok_), "from t | select {b, c, w = a} | append (from u | select {b, c, w = d} | append (%s | select {b, c, w})) | %s" % (isrc if ik != "plain" else "from v | derive {w = 0}", (o or "take 5").replace("t.a", "b"))))
    rel_funcs = [
        ("once", "let f = rel -> (rel | filter a > 1 | select {a, b})\nfrom t | f"),
        ("once_arg", "let f = n rel -> (rel | take n)\nfrom t | f 3 | filter a > 0"),
        ("once_paren", "let f = rel -> (rel | derive {z = a + 1})\nf (from t | select {a, b}) | filter z > 1"),
        ("twice_join", "let dup = rel -> (rel | join rel (==a))\nfrom t | select {a, b} | dup"),
        ("twice_join_alias", "let dup = rel -> (from rel | join r2 = rel (==a))\ndup (from t | select {a, b})"),
        ("twice_append", "let twice = rel -> (rel | append rel)\nfrom t | select {a, b} | twice"),
        ("twice_table", "let dup = rel -> (rel | join rel (==a))\ndup t"),
        ("two_params", "let j = l r -> (l | join r (==a))\nj (from t | select {a, b}) (from u | select {a, d})"),
        ("two_params_same", "let j = l r -> (l | join r (==a))\nlet s = (from t | select {a, b})\nj s s"),
        ("in_let", "let f = rel -> (rel | sort a | take 2)\nlet top = (from t | f)\nfrom top | join u (==a) | f"),
        ("nested_call", "let f = rel -> (rel | filter a > 1)\nlet g = rel -> (rel | f | select {a})\nfrom t | g | join (from u | g) (==a)"),
    ]
    out += [("relfunc:" + n, src) for n, src in rel_funcs]
    scalars = [
        ("both", "let k = 5\nfrom t | derive {x = a + k} | join (from u | derive {y = b + k}) (==id)"),
        ("filter_both", "let k = 5\nfrom t | filter a > k | join (from u | filter b > k) (==id) | select {t.a, u.b}"),
        ("expr", "let k = 2 + 3\nlet m = k * 2\nfrom t | derive {x = a + m} | append (from u | select {a, x = k})"),
        ("in_group", "let k = 5\nfrom t | group a (aggregate {s = sum b + k}) | join (from u | group a (aggregate {c = count this + k})) (==a)"),
        ("in_window", "let k = 1\nfrom t | sort a | derive {l = lag k b} | join (from u | sort a | derive {m = lead k d}) (==a)"),
        ("tuple", "let p = {x = 1, y = 2}\nfrom t | derive {z = a + p.x} | join (from u | derive {q = d + p.y}) (==a)"),
    ]
    out += [("scalar_let:" + n, src) for n, src in scalars]
    out += [("c07_featdb", src) for src in c07.FEATURES_DB]
    out += [("gfeat", src) for _, src in gfeat.programs() if len(src) < 3000]
    return out


def _feature_shard(items):
    w = core.Worker()
    viols, seen = [], set()
    obs = {"feature_programs": 0, "feature_rqs": 0, "feature_families": {}, "feature_kinds": {}}
    for fam, src in items:
        r = w.call({"op": "compile", "src": src, "rq": True})
        obs["feature_programs"] += 1
        rc = r.get("rqcheck")
        if not rc:
            continue
        obs["feature_rqs"] += 1
        f0 = fam.split(":")[0]
        obs["feature_families"][f0] = obs["feature_families"].get(f0, 0) + 1
        for k, v in rc["kinds"].items():
            obs["feature_kinds"][k] = obs["feature_kinds"].get(k, 0) + v
        for v in rc["violations"]:
            key = (v.split(":")[0], fam if f0 in ("relfunc", "scalar_let") else f0)
            viols.append({"property": "C16", "symptom": "rq:" + v.split(":")[0], "shape": "feature:" + (fam if f0 in ("relfunc", "scalar_let") else fam.rsplit(":", 1)[0] if ":" in fam else fam),
                          "witness": {"src": src, "family": fam} if key not in seen else None, "detail": v})
            seen.add(key)
    w.close()
    return viols, obs


def run(tier, seed):
    run = run_(tier, seed)
    N = core.NCPU
    feats = feature_programs()
    res = core.run_shards(_feature_shard, [dict(items=feats[i::N]) for i in range(N)])
    tot = {}
    for v, o in res:
        run.extend(v)
        core.merge_counts(tot, o)
    run.coverage.update(tot)
    run.coverage["evaluations"] = run.coverage.get("evaluations", 0) + tot.get("feature_programs", 0)
    run.coverage["rule"] += ("; feature phase: inline sub-pipelines nested 2-3 levels (5 inner x 8 middle x 7 outer uses), functions over relations, "
                             "scalar lets shared between pipelines, loops, set operations, let readers, G-feat programs")
    return run


def run_(tier, seed):
    run = c01.explore("C16", PROPS, [("core", 0.4), ("window", 0.3), ("project", 0.3), ("shared", 0.3)], tier, seed, 900, 40000, ASSUMPTIONS)
    srcs = corpus.sources()
    N = core.NCPU
    res = core.run_shards(_corpus_shard, [dict(srcs=srcs[i::N]) for i in range(N)])
    tot = {}
    for v, o in res:
        run.extend(v)
        core.merge_counts(tot, o)
    run.coverage.update(tot)
    run.coverage["rule"] = ("every program reaching RQ (random relational/window/projection programs + corpus) has its RQ checked by the Rust monitor; "
                            "distinct non-trivial as for C01 (distinct transform-kind sequences with CTEs/sub-queries), i.e. RQs with several pipelines or table instances")
    return run


def replay(case):
    if "src" in case:
        w = core.Worker()
        r = w.call({"op": "compile", "src": case["src"], "rq": True})
        w.close()
        if case.get("family"):
            vs, _ = _feature_shard([(case["family"], case["src"])])
            return vs
        return [{"property": "C16", "symptom": "rq:" + v.split(":")[0], "shape": "corpus", "witness": case, "detail": v}
                for v in r.get("rqcheck", {}).get("violations", [])]
    return relcheck.replay_case(case, PROPS)
