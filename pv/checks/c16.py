"""C16 — every emitted RQ is closed and consistently identified.
Monitor: harness/pv-worker/src/rqcheck.rs over the public ir::rq types."""
from .. import core, relcheck, corpus
from . import c01

PROPS = {"C16"}
ASSUMPTIONS = [
    "'visible at that point of its pipeline' is read as: defined earlier in the same pipeline (table-ref column or compute); a column hidden by an intermediate Select may still be referenced (e.g. Take.sort)",
    "Loop bodies are exempt from the from/select framing rule (their lowering drops both by design) but not from id rules",
    "the columns of the table instance introduced by an Append are not visible to later transforms of that pipeline (the pipeline keeps the top relation's columns; the SQL back-end's determine_select_columns ignores them too)",
    "table ids must be declared earlier in `tables` than the table that references them; the main relation may reference any declared table",
]


def _corpus_shard(srcs):
    w = core.Worker()
    viols, n, ok = [], 0, 0
    kinds = {}
    for s in srcs:
        r = w.call({"op": "compile", "src": s, "rq": True})
        n += 1
        rc = r.get("rqcheck")
        if rc:
            ok += 1
            for k, v in rc["kinds"].items():
                kinds[k] = kinds.get(k, 0) + v
            for v in rc["violations"]:
                viols.append({"property": "C16", "symptom": "rq:" + v.split(":")[0], "shape": "corpus",
                              "witness": {"src": s}, "detail": v})
    w.close()
    return viols, {"corpus_programs": n, "corpus_rqs": ok, "corpus_kinds": kinds}


def run(tier, seed):
    run = c01.explore("C16", PROPS, [("core", 0.4), ("window", 0.3), ("project", 0.3), ("shared", 0.3)], tier, seed, 900, 40000, ASSUMPTIONS)
    srcs = corpus.sources()
    N = core.NCPU
    res = core.run_shards(_corpus_shard, [dict(srcs=srcs[i::N]) for i in range(N)])
    tot = {}
    for v, o in res:
        run.extend(v)
        core.merge_counts(tot, o)
    run.coverage.update(tot)
    run.coverage["rule"] = ("every program reaching RQ (random relational/window/projection programs + corpus) has its RQ checked by the Rust monitor; "
                            "distinct non-trivial as for C01 (distinct transform-kind sequences with CTEs/sub-queries), i.e. RQs with several pipelines or table instances")
    return run


def replay(case):
    if "src" in case:
        w = core.Worker()
        r = w.call({"op": "compile", "src": case["src"], "rq": True})
        w.close()
        return [{"property": "C16", "symptom": "rq:" + v.split(":")[0], "shape": "corpus", "witness": case, "detail": v}
                for v in r.get("rqcheck", {}).get("violations", [])]
    return relcheck.replay_case(case, PROPS)
