"""C06 — refactorings PRQL defines as equivalent do not change results (metamorphic + model-anchored)."""
import copy, re
from .. import core, relcheck
from ..gen import grel
from ..ref import model
from . import c01


def map_exprs(t, fn):
    """Apply fn to every expression of transform t (in place), recursing into nested pipelines."""
    k = t["t"]
    if k in ("select", "derive", "aggregate"):
        t["items"] = [[n, fn(e)] for n, e in t["items"]]
    elif k == "filter":
        t["cond"] = fn(t["cond"])
    elif k == "exclude":
        t["cols"] = [fn(e) for e in t["cols"]]
    elif k == "sort":
        t["keys"] = [[d, fn(e)] for d, e in t["keys"]]
    elif k == "join":
        t["cond"] = fn(t["cond"])
        t.pop("cond_text", None)
    elif k == "group":
        t["keys"] = [fn(e) for e in t["keys"]]
        for x in t["pipe"]:
            map_exprs(x, fn)
    elif k == "window":
        for x in t["pipe"]:
            map_exprs(x, fn)


def map_cols(e, fn):
    if not isinstance(e, list) or not e:
        return e
    if e[0] == "col":
        return fn(e)
    if e[0] == "case":
        return ["case", [[map_cols(c, fn), map_cols(v, fn)] for c, v in e[1]]]
    if e[0] == "win":
        return ["win", e[1], [map_cols(a, fn) if isinstance(a, list) else a for a in e[2]]]
    if e[0] == "call":
        return ["call", e[1], [map_cols(a, fn) for a in e[2]], {n: map_cols(a, fn) for n, a in (e[3] or {}).items()}] + e[4:]
    return [e[0]] + [map_cols(x, fn) if isinstance(x, list) else x for x in e[1:]]


def rw_let_prefix(rng, prog, via_into=False):
    cuts = [c for c in prog.get("cuts", []) if 1 <= c["at"] < len(prog["main"]) + 1]
    if not cuts:
        return None
    c = rng.choice(cuts)
    at_b = [x for x in cuts if x["at"] == prog.get("boundary_at")]
    if at_b and rng.random() < 0.8:
        c = at_b[0]
    name = "pfx%d" % (len(prog.get("lets", [])) + 1)
    p = copy.deepcopy(prog)
    prefix, suffix = p["main"][:c["at"]], p["main"][c["at"]:]
    quals = set(c["quals"])

    def requal(e):
        if e[1] in quals:
            return ["col", name, e[2]]
        return e
    for t in suffix:
        map_exprs(t, lambda e: map_cols(e, requal))
    p["lets"] = p.get("lets", []) + [[name, prefix]]
    p["main"] = [{"t": "from", "src": {"k": "let", "name": name}, "alias": None}] + suffix
    p["cuts"] = []
    return p, "let_prefix@%d" % c["at"]


def rw_inline_lets(rng, prog):
    """The reverse of naming a prefix: every reader of a let-table gets the let's pipeline inline
    (`from l` -> `from l = (<pipeline of l>)`, likewise join / append), the alias keeping the qualifier that
    later references use.  A let with several readers is thereby compared with as many private copies."""
    if not prog.get("lets") or prog.get("module"):
        return None
    refs = grel.let_refs(prog)
    if not refs:
        return None
    p = copy.deepcopy(prog)
    defs = {}

    def inline(pipe):
        for t in pipe:
            s = t.get("src")
            if s:
                if s["k"] == "let" and not s.get("module"):
                    name = s["name"]
                    t["src"] = {"k": "pipe", "pipe": copy.deepcopy(defs[name])}
                    if t["t"] in ("from", "join") and not t.get("alias"):
                        t["alias"] = name
                elif s["k"] == "pipe":
                    inline(s["pipe"])
            if t["t"] in ("group", "window"):
                inline(t["pipe"])
    for name, pipe in p["lets"]:
        inline(pipe)               # earlier lets are already inline-free
        defs[name] = pipe
    inline(p["main"])
    p["lets"] = []
    p["cuts"] = []
    p.pop("module", None)
    return p, "inline_lets:%d" % min(max(refs.values()), 3)


def collect_scalar_sites(prog):
    sites = []
    for ti, t in enumerate(prog["main"]):
        if t["t"] in ("derive", "select"):
            for ii, (n, e) in enumerate(t["items"]):
                if e[0] in ("bin", "case", "neg", "not", "in") and not model.has_kind(e, ("agg", "win", "call")):
                    sites.append((ti, "items", ii))
        elif t["t"] == "filter":
            e = t["cond"]
            if e[0] in ("bin", "not", "in") and not model.has_kind(e, ("agg", "win", "call")):
                sites.append((ti, "cond", None))
    return sites


def rw_function(rng, prog, style=None):
    sites = collect_scalar_sites(prog)
    if not sites:
        return None
    ti, fld, ii = rng.choice(sites)
    p = copy.deepcopy(prog)
    t = p["main"][ti]
    e = t[fld] if ii is None else t[fld][ii][1]
    cols = []

    def grab(c):
        key = (c[1], c[2])
        if key not in [(x[1], x[2]) for x in cols]:
            cols.append(c)
        return c
    map_cols(e, grab)
    if not cols or len(cols) > 3:
        return None
    params = ["p%d" % i for i in range(len(cols))]
    body = map_cols(e, lambda c: ["param", params[[(x[1], x[2]) for x in cols].index((c[1], c[2]))]])
    fname = "fn%d" % (len(prog.get("funcs", [])) + 1)
    style = style or rng.choice(["positional", "piped", "named_default", "named_given", "piped_named_given"])
    f = {"name": fname, "params": list(params), "named": [], "body": body}
    call = ["call", fname, [list(c) for c in cols], {}, False]
    if style == "piped":
        call[4] = True
    if style == "piped_named_given":
        call[4] = True            # (last_arg | fn nm:7 other_args): with one parameter the call itself has no positional argument
    if style in ("named_default", "named_given", "piped_named_given"):
        # add a named parameter with a default that the body uses additively as `?? dflt`-free identity: (body) wrapped as case [nm == nm => body]
        lit = ["lit", rng.choice([1, 2, 5])]
        f["named"] = [["nm", lit]]
        f["body"] = ["case", [[["bin", "==", ["param", "nm"], lit if style == "named_default" else ["lit", 7]], body]]]
        if style in ("named_given", "piped_named_given"):
            call[3] = {"nm": ["lit", 7]}
        # semantics: case [nm == k => body]  with nm == k always true => body
    p["funcs"] = p.get("funcs", []) + [f]
    if ii is None:
        t[fld] = call
    else:
        t[fld][ii][1] = call
    return p, "function:" + style


def rw_function_compound(rng, prog):
    """f = p0 p1.. -> E[S := p0]; call f (S) c1..: the first argument is itself a compound expression S taken
    out of E, so inlining has to keep S's grouping inside the body's operators (and a parameter may be used twice)."""
    sites = collect_scalar_sites(prog)
    if not sites:
        return None
    ti, fld, ii = rng.choice(sites)
    p = copy.deepcopy(prog)
    t = p["main"][ti]
    e = t[fld] if ii is None else t[fld][ii][1]
    subs = []

    def walk(x, path):
        if isinstance(x, list) and x and x[0] == "bin":
            if path:
                subs.append(path)
            walk(x[2], path + [2])
            walk(x[3], path + [3])
        elif isinstance(x, list) and x and x[0] in ("neg", "not"):
            walk(x[1], path + [1])
    walk(e, [])
    if not subs:
        return None
    path = rng.choice(subs)
    S = e
    for k in path:
        S = S[k]
    S = copy.deepcopy(S)

    def put(x, path, v):
        if not path:
            return v
        y = list(x)
        y[path[0]] = put(x[path[0]], path[1:], v)
        return y
    body0 = put(e, path, ["param", "p0"])
    if rng.random() < 0.3:
        # use the parameter twice: p0 op-neutral combination that keeps the value (x ?? x)
        body0 = put(e, path, ["bin", "??", ["param", "p0"], ["param", "p0"]])
    cols = []

    def grab(c):
        key = (c[1], c[2])
        if key not in [(x[1], x[2]) for x in cols]:
            cols.append(c)
        return c
    map_cols(body0, grab)
    if len(cols) > 3:
        return None
    params = ["p0"] + ["q%d" % i for i in range(len(cols))]
    body = map_cols(body0, lambda c: ["param", params[1 + [(x[1], x[2]) for x in cols].index((c[1], c[2]))]])
    fname = "fc%d" % (len(prog.get("funcs", [])) + 1)
    f = {"name": fname, "params": params, "named": [], "body": body}
    call = ["call", fname, [S] + [list(c) for c in cols], {}, False]
    p["funcs"] = p.get("funcs", []) + [f]
    if ii is None:
        t[fld] = call
    else:
        t[fld][ii][1] = call
    return p, "function:compound_arg"


def rw_split_filter(rng, prog):
    idx = [i for i, t in enumerate(prog["main"]) if t["t"] == "filter" and t["cond"][0] == "bin" and t["cond"][1] == "&&"
           and not model.has_kind(t["cond"], ("agg", "win"))]
    if not idx:
        return None
    i = rng.choice(idx)
    p = copy.deepcopy(prog)
    c = p["main"][i]["cond"]
    p["main"][i:i + 1] = [{"t": "filter", "cond": c[2]}, {"t": "filter", "cond": c[3]}]
    p["cuts"] = []
    return p, "split_filter"


def rw_merge_filters(rng, prog):
    idx = [i for i in range(len(prog["main"]) - 1) if prog["main"][i]["t"] == "filter" and prog["main"][i + 1]["t"] == "filter"
           and not model.has_kind(prog["main"][i]["cond"], ("agg", "win")) and not model.has_kind(prog["main"][i + 1]["cond"], ("agg", "win"))]
    if not idx:
        return None
    i = rng.choice(idx)
    p = copy.deepcopy(prog)
    p["main"][i:i + 2] = [{"t": "filter", "cond": ["bin", "&&", p["main"][i]["cond"], p["main"][i + 1]["cond"]]}]
    p["cuts"] = []
    return p, "merge_filters"


def rw_identity(rng, prog):
    p = copy.deepcopy(prog)
    kind = rng.choice(["filter_true", "select_all", "sort_again", "derive_then_drop"])
    n = len(p["main"])
    if kind == "filter_true":
        i = rng.randint(1, n)
        p["main"].insert(i, {"t": "filter", "cond": ["lit", True]})
    elif kind == "select_all":
        cuts = [c for c in prog.get("cuts", []) if c["at"] <= n]
        if not cuts:
            return None
        c = rng.choice(cuts)
        p["main"].insert(c["at"], {"t": "select", "items": [[None, ["col", None, nm]] for nm, _ in c["cols"]]})
    elif kind == "sort_again":
        idx = [i for i, t in enumerate(p["main"]) if t["t"] == "sort"]
        if not idx:
            return None
        i = rng.choice(idx)
        p["main"].insert(i + 1, copy.deepcopy(p["main"][i]))
    else:
        cuts = [c for c in prog.get("cuts", []) if c["at"] <= n]
        if not cuts:
            return None
        c = rng.choice(cuts)
        p["main"].insert(c["at"], {"t": "derive", "items": [["zz_tmp", ["lit", 1]]]})
        p["main"].insert(c["at"] + 1, {"t": "select", "items": [[None, ["col", None, nm]] for nm, _ in c["cols"]]})
    p["cuts"] = []
    return p, "identity:" + kind


def rw_module(rng, prog):
    if not prog.get("lets"):
        return None
    used = [n for n, _ in prog["lets"]]
    p = copy.deepcopy(prog)
    # move every let into module m and refer to them by path (lets may reference each other: inside the module bare names still resolve)
    target = rng.choice(used)
    # only move a let that no other let references (keeps intra-module references out of the picture)
    def refs(pipe, name):
        for t in pipe:
            for key in ("src",):
                s = t.get(key)
                if s and s["k"] == "let" and s["name"] == name:
                    return True
                if s and s["k"] == "pipe" and refs(s["pipe"], name):
                    return True
            if t["t"] in ("group", "window") and refs(t["pipe"], name):
                return True
        return False
    if any(refs(pipe, target) for n, pipe in p["lets"] if n != target):
        return None

    def fix(pipe):
        for t in pipe:
            s = t.get("src")
            if s and s["k"] == "let" and s["name"] == target:
                s["module"] = "mod1"
                if not t.get("alias"):
                    t["alias"] = target          # keep the qualifier used by later references
            if s and s["k"] == "pipe":
                fix(s["pipe"])
            if t["t"] in ("group", "window"):
                fix(t["pipe"])
    if not refs(p["main"], target):
        return None
    fix(p["main"])
    p["module"] = {"name": "mod1", "members": [target]}
    return p, "module_path"


_FCACHE = {}


def reject_class(o2):
    return "reason:" + re.sub(r"`[^`]*`", "`_`", o2.obs.get("reject_reason", "?"))[:60].replace(" ", "_")


def inherited(w, p2, db, dialect, o2, under):
    """Which listed defect of another property (if any) the rewritten program ran into: the
    rewritten program is reduced with respect to its own symptom and matched against that
    property's known findings.  Returns 'inherits:<id>' or 'inherits:none'."""
    if not under:
        return "inherits:none"
    prop0, sym0 = under
    rdb = db
    if prop0 == "C12":
        rp = p2          # panics are identified by their site, not by a program shape
    else:
        try:
            rp, rdb = relcheck.reduce_case(w, p2, db, dialect, prop0, sym0)
        except Exception:
            rp, rdb = p2, db
    marker = ""
    if prop0 == "C05":
        # the frame marker belongs to the program the shape describes, i.e. the reduced one
        fw = o2.obs.get("frame_wildcard")
        try:
            w.db_open("rdx", grel.db_stmts(rdb if rp is not p2 else db))
            fw = relcheck.run_case(w, rp, rdb if rp is not p2 else db, "rdx", dialect).obs.get("frame_wildcard", fw)
            w.db_close("rdx")
        except Exception:
            pass
        marker = "[W] " if fw else "[K] "
    w.db_open("d", grel.db_stmts(db))
    shape0 = dialect + " :: " + marker + relcheck.shape_of(rp)
    if prop0 not in _FCACHE:
        _FCACHE[prop0] = core.load_findings(prop0)
    v = {"property": prop0, "symptom": sym0, "shape": shape0}
    if prop0 == "C07":
        v["shape"] = ("any" if sym0.startswith("bind:") else dialect) + " :: " + relcheck.shape_of(rp)
        v["symptom"] = sym0.replace("sql_error:", "sqlite_prepare:")
    for f in _FCACHE[prop0]:
        if f.matches(v):
            return "inherits:" + f.id
    if prop0 in ("C01", "C03"):
        # C04 files the same symptoms of window programs under its own id (a window value that is the same
        # multiset over the rows but lands on other rows is seen as an order difference)
        if "C04" not in _FCACHE:
            _FCACHE["C04"] = core.load_findings("C04")
        for f in _FCACHE["C04"]:
            if f.matches(dict(v, property="C04")):
                return "inherits:" + f.id
    return "inherits:none:" + relcheck.shape_of(rp)[:120]


REWRITES = [rw_let_prefix, rw_inline_lets, rw_function, rw_function, rw_function_compound, rw_split_filter, rw_merge_filters, rw_identity, rw_identity, rw_module]


def fixed_bases(tier):
    """Enumerated bases for the let-prefix / inline rewrites: the take-chain programs of C03 (two sort | take steps x
    take forms incl. open-ended ones x what follows), cut exactly after the first and after the second take."""
    from . import c03
    db, progs = c03.take_chain_matrix(tier)
    out = []
    for i, p in enumerate(progs):
        if p.get("lets"):
            if i % 3 == 0:
                out.append(p)          # already behind a let: the inline_lets rewrite applies
            continue
        takes = [j for j, t in enumerate(p["main"]) if t["t"] == "take"]
        open_ended = any(p["main"][j].get("hi") is None for j in takes)
        if not open_ended and i % 7:
            continue
        q = dict(p)
        q["cuts"] = [{"at": j + 1, "quals": []} for j in takes if j + 1 < len(p["main"])]
        if not q["cuts"]:
            continue
        q["boundary_at"] = q["cuts"][i % len(q["cuts"])]["at"]
        q["boundary"] = ["take", p["main"][q["boundary_at"]]["t"] if q["boundary_at"] < len(p["main"]) else "end"]
        out.append(q)
    return db, out


def _shard(seed, shard, n_bases, fixed=None):
    rng = core.shard_rng(seed, "C06" if fixed is None else "C06:fixed", shard)
    fixed_iter = iter(fixed) if fixed is not None else None
    w = core.Worker()
    viols, seen = [], set()
    obs = {"bases": 0, "bases_ok": 0, "pairs": 0, "pairs_sql_differs": 0, "by_rewrite": {}, "base_not_clean": 0, "rewrite_unspecified": 0,
           "nontrivial": set(), "cte_delta": {}, "boundary_pairs": set()}
    dbi = 0
    while fixed_iter is not None or obs["bases"] < n_bases:
        if fixed_iter is not None:
            nxt = next(fixed_iter, None)
            if nxt is None:
                break
            db, fixed_progs = nxt
        else:
            db = grel.gen_db(rng, relcheck.DB_KINDS[dbi % 5])
            fixed_progs = [None] * 8
        dbi += 1
        w.db_close_all()
        w.db_open("d", grel.db_stmts(db))
        for fprog in fixed_progs:
            try:
                c0 = rng.random() if fprog is None else 2.0
                if fprog is not None:
                    prog = fprog
                    obs["fixed_bases"] = obs.get("fixed_bases", 0) + 1
                elif c0 < 0.35:
                    prog = grel.boundary_program(rng)
                    obs["boundary_bases"] = obs.get("boundary_bases", 0) + 1
                elif c0 < 0.55:
                    prog = grel.shared_program(rng)
                    obs["shared_let_bases"] = obs.get("shared_let_bases", 0) + 1
                else:
                    prog = grel.random_program(rng, rng.choice(["core", "core", "project", "sort", "window"]))
                src = grel.pp_program(prog)
            except (ValueError, IndexError):
                continue
            obs["bases"] += 1
            dialect = rng.choice(["sqlite", "generic"])
            o = relcheck.run_case(w, prog, db, "d", dialect, src=src)
            base_bad = [s for s in o.symptoms if s[0] in ("C01", "C03", "C05", "C07")] if o.status == "judged" and o.model is not None else []
            if o.status != "judged" or o.model is None or (o.symptoms and not base_bad):
                obs["base_not_clean"] += 1
                continue
            if base_bad:
                obs["bases_deviating"] = obs.get("bases_deviating", 0) + 1
            else:
                obs["bases_ok"] += 1
            # every rewrite kind that applies to this base is tried once (the structural ones first:
            # filter split/merge apply to few bases and must not depend on being drawn), then random extras
            plan = [rw_split_filter, rw_merge_filters, rw_let_prefix, rw_inline_lets] + [rng.choice(REWRITES) for _ in range(3)]
            if base_bad:
                plan = plan[:5]
            for ri, rw in enumerate(plan):
                if rw is rw_let_prefix and ri == 2 and prog.get("boundary_at"):
                    if not base_bad and o.sql:
                        obs["boundary_pairs"].add(tuple(prog["boundary"]))
                try:
                    res = rw(rng, prog)
                except Exception:
                    res = None
                if res is None:
                    continue
                p2, name = res
                # compositions of rewrites
                if rng.random() < 0.3:
                    try:
                        res2 = rng.choice(REWRITES)(rng, p2)
                    except Exception:
                        res2 = None
                    if res2:
                        p2, name = res2[0], name + "+" + res2[1]
                try:
                    src2 = grel.pp_program(p2)
                except (ValueError, KeyError):
                    continue
                kind = re.sub(r"@\d+", "", name)
                obs["pairs"] += 1
                obs["by_rewrite"][kind.split("+")[0]] = obs["by_rewrite"].get(kind.split("+")[0], 0) + 1
                o2 = relcheck.run_case(w, p2, db, "d", dialect, src=src2)
                sym = None
                under = None
                if base_bad:
                    # the base deviates from the model: the pair disagrees if the rewritten side is clean
                    # (if both deviate the defect is not one of the rewrite; C01/C03/C05/C07 own it)
                    if o2.status == "judged" and o2.model is not None and not [s for s in o2.symptoms if s[0] in ("C01", "C03", "C05", "C07")]:
                        obs["pairs_only_base_deviates"] = obs.get("pairs_only_base_deviates", 0) + 1
                        sym, det = "base_" + base_bad[0][1], base_bad[0][2]
                        inh = inherited(w, prog, db, dialect, o, (base_bad[0][0], base_bad[0][1]))
                        key = (sym, kind, inh)
                        wit = None
                        if key not in seen:
                            seen.add(key)
                            wit = {"base": prog, "rewritten": p2, "db": db, "dialect": dialect, "rewrite": name,
                                   "base_prql": src, "rewritten_prql": src2}
                        viols.append({"property": "C06", "symptom": sym, "shape": "%s :: %s :: %s" % (dialect, kind, inh), "witness": wit,
                                      "detail": "only the base deviates from the model, the rewritten program agrees with it: " + str(det)[:300] + " || base sql: " + (o.sql or "")[:300]})
                    continue
                if o2.status == "rejected":
                    sym, det = "rewritten_rejected", o2.obs.get("reject_reason", "")
                elif o2.status in ("panic", "abort"):
                    sym, det = "rewritten_panics", str(o2.symptoms)[:200]
                    under = o2.symptoms[0][:2] if o2.symptoms else None
                elif o2.status == "unspecified" or o2.status == "model_error":
                    obs["rewrite_unspecified"] += 1
                    continue
                elif o2.status == "judged":
                    if o2.sql and o.sql and o2.sql != o.sql:
                        obs["pairs_sql_differs"] += 1
                        obs["nontrivial"].add((kind, tuple(grel.kinds_of(prog))))
                        d = str(o2.obs["shape"]["ctes"] - o.obs["shape"]["ctes"])
                        obs["cte_delta"][d] = obs["cte_delta"].get(d, 0) + 1
                    bad = [s for s in o2.symptoms if s[0] in ("C01", "C03", "C05", "C07")]
                    # both sides agree with the model (rows as bag/sequence, columns by name), hence with each
                    # other; a direct positional comparison would only re-judge column order, which C05 owns
                    if bad:
                        sym, det = "rewritten_" + bad[0][1], bad[0][2]
                        under = (bad[0][0], bad[0][1]) if bad[0][0] != "C06" else None
                if sym:
                    inh = reject_class(o2) if sym == "rewritten_rejected" else inherited(w, p2, db, dialect, o2, under)
                    key = (sym, kind, inh)
                    wit = None
                    if key not in seen:
                        seen.add(key)
                        wit = {"base": prog, "rewritten": p2, "db": db, "dialect": dialect, "rewrite": name,
                               "base_prql": src, "rewritten_prql": src2}
                    viols.append({"property": "C06", "symptom": sym, "shape": "%s :: %s :: %s" % (dialect, kind, inh), "witness": wit,
                                  "detail": str(det)[:300] + " || sql: " + (o2.sql or "")[:300]})
    w.close()
    obs["nontrivial"] = [list(x) for x in obs["nontrivial"]]
    obs["boundary_pairs"] = [list(x) for x in obs["boundary_pairs"]]
    return viols, obs


def function_templates():
    """Enumerated (expression template x site x call style): expressions in which one operand occurs several times
    (range tests with strict / inclusive bounds in either order, products and differences of a value with itself,
    null tests combined with comparisons, case, in) written out in a filter / a derive / a filter after an
    aggregation, against the same expression abstracted into a user function whose parameter occurs several times.
    -> [(label, base program)]; the rewritten side is made by rw_function."""
    A, C = ["col", None, "a"], ["col", None, "c"]
    L = lambda v: ["lit", v]
    B = lambda op, x, y: ["bin", op, x, y]
    def rng_test(lo_op, hi_op, x=A, lo=1, hi=4, lo_first=True, conj="&&"):
        l, h = B(lo_op, x, L(lo)), B(hi_op, x, L(hi))
        return B(conj, l, h) if lo_first else B(conj, h, l)
    T = {}
    for lo_op in (">", ">="):
        for hi_op in ("<", "<="):
            T["range%s%s" % (lo_op, hi_op)] = rng_test(lo_op, hi_op)
            T["range_hi_first%s%s" % (lo_op, hi_op)] = rng_test(lo_op, hi_op, lo_first=False)
    T["range_point"] = rng_test(">=", "<=", lo=2, hi=2)
    T["range_empty"] = rng_test(">", "<", lo=2, hi=3)
    T["range_outside"] = B("||", B("<", A, L(2)), B(">", A, L(4)))
    T["range_on_sum"] = rng_test(">", "<", x=B("+", A, L(1)), lo=2, hi=5)
    T["range_col_bounds"] = B("&&", B(">", A, C), B("<", A, B("+", C, L(6))))
    T["range_mixed_ops"] = B("&&", B(">", A, L(1)), B("!=", A, L(4)))
    T["eq_or_eq"] = B("||", B("==", A, L(1)), B("==", A, L(4)))
    T["null_or_gt"] = B("||", B("==", A, L(None)), B(">", A, L(2)))
    T["notnull_and_lt"] = B("&&", B("!=", A, L(None)), B("<", A, L(3)))
    T["in_range"] = ["in", A, L(1), L(4)]
    V = {"square": B("*", A, A), "self_diff": B("-", A, A), "poly": B("+", A, B("*", A, A)), "coalesce_self": B("+", B("??", A, L(0)), A),
         "neg_minus": B("-", ["neg", A], A), "case_self": ["case", [[B(">", A, L(2)), A], [L(True), B("-", L(0), A)]]],
         "two_cols": B("-", B("-", A, C), A)}
    head = [{"t": "from", "src": {"k": "table", "name": "t2"}, "alias": None},
            {"t": "select", "items": [[None, ["col", None, "id"]], [None, ["col", None, "k"]], [None, A], [None, C]]}]
    agg = {"t": "group", "keys": [["col", None, "k"]], "pipe": [{"t": "aggregate", "items": [["a", ["agg", "max", A]], ["c", ["agg", "count", None]]]}]}
    out = []
    for name, e in sorted(T.items()):
        out.append(("%s@filter" % name, {"lets": [], "main": head + [{"t": "filter", "cond": e}], "cuts": []}))
        out.append(("%s@derive" % name, {"lets": [], "main": head + [{"t": "derive", "items": [["x", e]]}], "cuts": []}))
        out.append(("%s@having" % name, {"lets": [], "main": head + [agg, {"t": "filter", "cond": e}], "cuts": []}))
        out.append(("%s@join_filter" % name, {"lets": [], "main": head + [{"t": "sort", "keys": [[False, ["col", None, "id"]]]}, {"t": "take", "lo": None, "hi": 8, "plain": True}, {"t": "filter", "cond": e}], "cuts": []}))
    for name, e in sorted(V.items()):
        out.append(("%s@derive" % name, {"lets": [], "main": head + [{"t": "derive", "items": [["x", e]]}], "cuts": []}))
        out.append(("%s@filter" % name, {"lets": [], "main": head + [{"t": "filter", "cond": B(">", e, L(3))}], "cuts": []}))
        out.append(("%s@sort" % name, {"lets": [], "main": head + [{"t": "derive", "items": [["x", e]]}, {"t": "sort", "keys": [[True, ["col", None, "x"]], [False, ["col", None, "id"]]]}, {"t": "take", "lo": None, "hi": 3, "plain": True}], "cuts": []}))
    return out


STYLES = ["positional", "piped", "named_default", "named_given", "piped_named_given"]


def _template_shard(seed, shard, items):
    from . import c04
    rng = core.shard_rng(seed, "C06t", shard)
    w = core.Worker()
    db = c04.MATRIX_DB
    w.db_open("d", grel.db_stmts(db))
    viols = []
    obs = {"template_pairs": 0, "template_pairs_judged": 0, "template_pairs_sql_differs": 0, "template_both_deviate": 0, "template_unspecified": 0}
    for (label, prog, style, dialect) in items:
        try:
            res = rw_function(rng, prog, style)
        except Exception:
            res = None
        if res is None:
            continue
        p2, name = res
        obs["template_pairs"] += 1
        o = relcheck.run_case(w, prog, db, "d", dialect)
        o2 = relcheck.run_case(w, p2, db, "d", dialect)
        if o.status in ("unspecified", "model_error", "engine_unsupported") or o2.status in ("unspecified", "model_error", "engine_unsupported"):
            obs["template_unspecified"] += 1
            continue
        bad = [x for x in o.symptoms if x[0] in ("C01", "C03", "C05", "C07")] if o.status == "judged" else []
        sym = det = None
        if o.status == "judged" and not bad:
            if o2.status == "rejected":
                sym, det = "rewritten_rejected", o2.obs.get("reject_reason", "")
            elif o2.status in ("panic", "abort"):
                sym, det = "rewritten_panics", str(o2.symptoms)[:200]
            elif o2.status == "judged":
                bad2 = [x for x in o2.symptoms if x[0] in ("C01", "C03", "C05", "C07")]
                if bad2:
                    sym, det = "rewritten_" + bad2[0][1], bad2[0][2]
                obs["template_pairs_judged"] += 1
                if o.sql != o2.sql:
                    obs["template_pairs_sql_differs"] += 1
        elif o.status == "judged" and bad and o2.status == "judged":
            bad2 = [x for x in o2.symptoms if x[0] in ("C01", "C03", "C05", "C07")]
            if not bad2:
                sym, det = "base_" + bad[0][1], bad[0][2]
            else:
                obs["template_both_deviate"] += 1
        elif o.status == "rejected" and o2.status == "judged":
            sym, det = "base_rejected", o.obs.get("reject_reason", "")
        if sym:
            viols.append({"property": "C06", "symptom": sym, "shape": "%s :: function_template:%s :: %s" % (dialect, style, label),
                          "witness": {"base": prog, "rewritten": p2, "db": db, "dialect": dialect, "rewrite": name, "template": label,
                                      "base_prql": grel.pp_program(prog), "rewritten_prql": grel.pp_program(p2)},
                          "detail": str(det)[:300] + " || base sql: " + (o.sql or "")[:250] + " || rewritten sql: " + (o2.sql or "")[:250]})
    w.close()
    return viols, obs


def template_phase(run, tier, seed):
    items = []
    for label, prog in function_templates():
        for style in STYLES:
            for dialect in ("sqlite", "generic"):
                if tier == "quick" and dialect == "generic" and style not in ("positional", "piped"):
                    continue
                items.append((label, prog, style, dialect))
    N = core.NCPU
    res = core.run_shards(_template_shard, [dict(seed=seed, shard=i, items=items[i::N]) for i in range(N)])
    obs = {}
    for v, o in res:
        run.extend(v)
        core.merge_counts(obs, o)
    run.coverage["function_templates"] = dict(obs, templates=len(function_templates()), styles=len(STYLES))
    run.coverage["evaluations"] = run.coverage.get("evaluations", 0) + obs.get("template_pairs", 0)


def run(tier, seed):
    run = core.Run("C06", tier, seed)
    N = core.NCPU
    n = 250 if tier == "quick" else 12000
    res = core.run_shards(_shard, [dict(seed=seed, shard=i, n_bases=n) for i in range(N)])
    fdb, fprogs = fixed_bases(tier)
    res += core.run_shards(_shard, [dict(seed=seed, shard=i, n_bases=0, fixed=[(fdb, fprogs[i::N])]) for i in range(N)])
    obs = {"nontrivial": set()}
    bpairs = set()
    for v, o in res:
        run.extend(v)
        obs["nontrivial"] |= set((a, tuple(b)) for a, b in o.pop("nontrivial"))
        bpairs |= set(tuple(x) for x in o.pop("boundary_pairs"))
        core.merge_counts(obs, o)
    best = {}
    for v in run.violations:
        k = (v["symptom"], v["shape"])
        if k not in best or (best[k].get("witness") is None and v.get("witness")):
            best[k] = v
    run.violations = list(best.values())
    nt = obs.pop("nontrivial")
    run.coverage = {
        "evaluations": obs.get("pairs", 0),
        "distinct_nontrivial": len(nt),
        "rule": "pair = (base program whose execution agrees with the reference model, rewritten program) on the same database; rewrites: name a prefix with let and continue from it, inline every reader of a let-table (a let with several readers vs as many private copies), abstract a scalar expression into a user function (positional / piped / named-with-default / named-given), split a conjunctive filter, merge consecutive filters, insert frame identities (filter true, select of all columns, repeated sort, derive-then-drop), move a let into a module and refer to it by path; compositions of two; 20% of the bases are shared-let programs (a let-table, often ending in a sort, read by other lets / the main pipeline / joins / appends); 35% of the bases are boundary programs (from | select | .. | END | START | ..) for every pairing of the transform kind that ends the let-extracted prefix with the kind that starts the suffix, cut exactly there; "
                "distinct non-trivial = distinct (rewrite kind, base transform-kind sequence) whose two SQL texts differ",
        "samples": [],
    }
    run.coverage.update(obs)
    run.coverage["boundary_kind_pairs_covered"] = len(bpairs)
    run.coverage["boundary_kind_pairs_possible"] = len(set(grel.BOUNDARY_END)) * len(set(grel.BOUNDARY_START))
    run.assumptions = c01.ASSUMPTIONS + [
        "both programs of a pair are executed and each is compared with the reference model on the same database; the pair disagrees when exactly one side deviates (symptoms rewritten_* / base_*). When both deviate the defect is not one of the rewrite and C01/C03/C05/C07 own it",
        "the rewritten program must compile, agree with the model and return the same bag of rows as the base; a rejection of the rewritten side is a violation (the rewrite is defined to be equivalent)",
        "let-prefix rewrites are applied only where the prefix frame is fully known with unique names (so the suffix can address it through the new name)",
    ]
    if run.violations and run.violations[0].get("witness"):
        pass
    run.coverage["samples"] = ["(see replay files for concrete pairs)", "rewrite kinds: " + ", ".join(sorted(obs.get("by_rewrite", {})))]
    template_phase(run, tier, seed)
    return run


def replay(case):
    w = core.Worker()
    w.db_open("d", grel.db_stmts(case["db"]))
    o = relcheck.run_case(w, case["base"], case["db"], "d", case["dialect"])
    o2 = relcheck.run_case(w, case["rewritten"], case["db"], "d", case["dialect"])
    w.close()
    out = []
    kind = re.sub(r"@\d+", "", case["rewrite"])
    if case.get("template"):
        bad = [x for x in o.symptoms if x[0] in ("C01", "C03", "C05", "C07")] if o.status == "judged" else []
        bad2 = [x for x in o2.symptoms if x[0] in ("C01", "C03", "C05", "C07")] if o2.status == "judged" else []
        sym = None
        if o.status == "judged" and not bad:
            sym = "rewritten_rejected" if o2.status == "rejected" else "rewritten_panics" if o2.status in ("panic", "abort") else ("rewritten_" + bad2[0][1]) if bad2 else None
        elif bad and o2.status == "judged" and not bad2:
            sym = "base_" + bad[0][1]
        elif o.status == "rejected" and o2.status == "judged":
            sym = "base_rejected"
        if sym:
            out.append({"property": "C06", "symptom": sym, "shape": "%s :: function_template:%s :: %s" % (case["dialect"], kind.split(":")[-1], case["template"]),
                        "witness": case, "detail": str((bad2 or bad or [("", "", o2.obs.get("reject_reason", ""))])[0][2])[:300]})
        return out
    if o.status == "judged" and not o.symptoms:
        sym = None
        if o2.status == "rejected":
            sym, det = "rewritten_rejected", o2.obs.get("reject_reason", "")
        elif o2.status in ("panic", "abort"):
            sym, det = "rewritten_panics", str(o2.symptoms)
        elif o2.status == "judged":
            bad = [s for s in o2.symptoms if s[0] in ("C01", "C03", "C05", "C07")]

            if bad:
                sym, det = "rewritten_" + bad[0][1], bad[0][2]
        if sym:
            under = None
            if o2.status in ("panic", "abort") and o2.symptoms:
                under = o2.symptoms[0][:2]
            elif o2.status == "judged":
                bad2 = [s for s in o2.symptoms if s[0] in ("C01", "C03", "C05", "C07")]
                under = (bad2[0][0], bad2[0][1]) if bad2 else None
            w2 = core.Worker()
            w2.db_open("d", grel.db_stmts(case["db"]))
            inh = reject_class(o2) if sym == "rewritten_rejected" else inherited(w2, case["rewritten"], case["db"], case["dialect"], o2, under)
            w2.close()
            out.append({"property": "C06", "symptom": sym, "shape": "%s :: %s :: %s" % (case["dialect"], kind, inh), "witness": case, "detail": det})
    elif o.status == "judged" and o.model is not None and o2.status == "judged" and o2.model is not None:
        bad = [s for s in o.symptoms if s[0] in ("C01", "C03", "C05", "C07")]
        bad2 = [s for s in o2.symptoms if s[0] in ("C01", "C03", "C05", "C07")]
        if bad and not bad2:
            w2 = core.Worker()
            w2.db_open("d", grel.db_stmts(case["db"]))
            inh = inherited(w2, case["base"], case["db"], case["dialect"], o, (bad[0][0], bad[0][1]))
            w2.close()
            out.append({"property": "C06", "symptom": "base_" + bad[0][1], "shape": "%s :: %s :: %s" % (case["dialect"], kind, inh), "witness": case,
                        "detail": "only the base deviates from the model: " + bad[0][2]})
    return out
