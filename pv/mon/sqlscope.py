"""Scope monitor over the sqlparser AST (as JSON) of an emitted statement (C07).

Reports references that cannot be in scope at their point of use:
  * `t.c` where no relation named/aliased `t` is in the FROM of that SELECT;
  * `t.c` where `t` is a CTE / derived table / schema table with a fully known column list lacking `c`;
  * bare `c` where every relation in scope has a fully known column list and none has `c`
    (select-list aliases are additionally allowed in GROUP BY / HAVING / ORDER BY / QUALIFY);
  * a table name that is neither a CTE in scope nor (when a schema is given) a schema table;
  * an empty projection.
Anything the analysis does not understand makes the surrounding scope *open* (no report): the
monitor is built to be sound against false alarms, not complete.
"""

KEYWORD_IDENTS = {"current_date", "current_time", "current_timestamp", "localtime", "localtimestamp", "null", "true", "false",
                  "current_user", "session_user", "user", "sysdate", "rownum", "excluded", "default"}


class Cols:
    """Column list of a relation: known names + open flag (may have more)."""
    __slots__ = ("names", "open", "orig")

    def __init__(self, names=None, open_=False):
        self.orig = list(names or [])
        self.names = [n.lower() if isinstance(n, str) else n for n in self.orig]
        self.open = open_

    def without(self, excl):
        """the columns that `* EXCLUDE (..)` / `* EXCEPT (..)` leaves (every column of an excluded name goes)"""
        ex = {e.lower() for e in excl}
        return [o for o, n in zip(self.orig, self.names) if n not in ex]

    def has(self, c):
        return self.open or c.lower() in self.names


def ident_value(i):
    if isinstance(i, dict):
        if "value" in i:
            return i["value"]
        if "Identifier" in i:
            return i["Identifier"].get("value")
    return None


def obj_name(parts):
    out = []
    for p in parts or []:
        v = ident_value(p)
        if v is None:
            return None
        out.append(v)
    return out


AGGREGATES = {"sum", "count", "min", "max", "avg", "stddev", "stddev_samp", "stddev_pop", "every", "bool_and", "bool_or", "any_value",
              "string_agg", "group_concat", "array_agg", "countif", "count_if", "logical_and", "logical_or", "min_by", "max_by"}


def _agg_and_bare(proj):
    """-> (name of an aggregate call outside any window, a column referenced outside every aggregate call) of a projection"""
    found = {"agg": None, "bare": None}

    def walk(e, in_agg):
        if isinstance(e, list):
            for x in e:
                walk(x, in_agg)
            return
        if not isinstance(e, dict):
            return
        for k, v in e.items():
            if k == "Function" and isinstance(v, dict):
                nm = obj_name(v.get("name") if isinstance(v.get("name"), list) else (v.get("name") or {}).get("0") if isinstance(v.get("name"), dict) else None)
                fname = (nm[-1] if nm else "").lower()
                is_agg = fname in AGGREGATES and not v.get("over")
                if is_agg and not in_agg and found["agg"] is None:
                    found["agg"] = fname.upper()
                for kk, vv in v.items():
                    if kk not in ("name", "over"):
                        walk(vv, in_agg or is_agg)
                if v.get("over") and not in_agg:
                    pass        # partition / order of a window function: plain columns are expected there
            elif k == "Identifier" and isinstance(v, dict) and "value" in v:
                if not in_agg and found["bare"] is None and v["value"].lower() not in KEYWORD_IDENTS:
                    found["bare"] = v["value"]
            elif k == "CompoundIdentifier" and isinstance(v, list):
                if not in_agg and found["bare"] is None:
                    found["bare"] = ".".join(str(ident_value(p)) for p in v)
            elif k in ("Subquery", "Exists", "InSubquery", "subquery", "data_type", "span", "Value", "TypedString", "alias"):
                continue
            else:
                walk(v, in_agg)
    walk(proj, False)
    return found["agg"], found["bare"]


def wildcard_exclusions(opts):
    """options of a `*` / `t.*` item -> (list of excluded names, understood?)"""
    if not isinstance(opts, dict):
        return [], True
    for k in ("opt_ilike", "opt_rename", "opt_replace"):
        if opts.get(k) is not None:
            return [], False
    names = []
    ex = opts.get("opt_exclude")
    if ex is not None:
        if isinstance(ex, dict) and "Multiple" in ex:
            names += [ident_value(i) for i in ex["Multiple"]]
        elif isinstance(ex, dict) and "Single" in ex:
            names.append(ident_value(ex["Single"]))
        else:
            return [], False
    ec = opts.get("opt_except")
    if ec is not None:
        if isinstance(ec, dict) and "first_element" in ec:
            names.append(ident_value(ec["first_element"]))
            names += [ident_value(i) for i in ec.get("additional_elements") or []]
        else:
            return [], False
    if not all(isinstance(n, str) for n in names):
        return [], False
    return names, True


class Binder:
    misplaced = None

    def __init__(self, schema=None):
        self.schema = {k.lower(): list(v) for k, v in (schema or {}).items()} if schema is not None else None
        self.problems = []
        self.stats = {"selects": 0, "ctes": 0, "derived": 0, "refs_checked": 0, "refs_open": 0}

    ambiguous = None

    def problem(self, kind, detail):
        self.problems.append({"kind": kind, "detail": detail})

    # ---- queries
    def query(self, q, ctes):
        ctes = dict(ctes)
        w = q.get("with")
        if w:
            recursive = bool(w.get("recursive"))
            for cte in w.get("cte_tables", []):
                name = ident_value(cte.get("alias", {}).get("name"))
                self.stats["ctes"] += 1
                if name is None:
                    continue
                inner = dict(ctes)
                if recursive:
                    inner[name.lower()] = Cols([], True)
                elif name.lower() not in ctes and self._mentions_table(cte["query"], name):
                    # a CTE that selects from itself in a WITH list that is not RECURSIVE: its own name is not in
                    # scope inside its body (and if a database table of that name exists, that table is read instead)
                    self.problem("cte_self_reference_without_recursive", "CTE %r refers to itself but the WITH clause is not RECURSIVE" % name)
                    inner[name.lower()] = Cols([], True)
                cols = self.query(cte["query"], inner)
                acols = cte.get("alias", {}).get("columns") or []
                if acols:
                    names = [ident_value(c.get("name") if isinstance(c, dict) and "name" in c else c) for c in acols]
                    if all(names):
                        cols = Cols(names, False)
                ctes[name.lower()] = cols
        body = q.get("body")
        cols, scope, aliases = self.setexpr(body, ctes)
        ob = q.get("order_by")
        if ob:
            exprs = []
            kind = ob.get("kind") if isinstance(ob, dict) else None
            if isinstance(kind, dict) and "Expressions" in kind:
                exprs = [e.get("expr") for e in kind["Expressions"]]
            for e in exprs:
                if scope is not None:
                    self.expr(e, scope, ctes, extra=aliases, where="ORDER BY")
                else:
                    # set operation: only output names are addressable
                    self.expr(e, [("", cols)], ctes, extra=[], where="ORDER BY(set)")
        return cols

    def _mentions_table(self, node, name):
        """does a FROM / JOIN anywhere inside node name the (unqualified) table `name`?"""
        found = [False]

        def walk(e):
            if found[0]:
                return
            if isinstance(e, list):
                for x in e:
                    walk(x)
            elif isinstance(e, dict):
                t = e.get("Table")
                if isinstance(t, dict) and "name" in t:
                    parts = obj_name(t.get("name"))
                    if parts and len(parts) == 1 and parts[0].lower() == name.lower():
                        found[0] = True
                        return
                for v in e.values():
                    walk(v)
        walk(node)
        return found[0]

    def setexpr(self, b, ctes):
        """-> (output Cols, scope of a simple select or None, select aliases)"""
        if not isinstance(b, dict):
            return Cols([], True), None, []
        if "Select" in b:
            return self.select(b["Select"], ctes)
        if "Query" in b:
            return self.query(b["Query"], ctes), None, []
        if "SetOperation" in b:
            so = b["SetOperation"]
            lc, _, _ = self.setexpr(so.get("left"), ctes)
            rc, _, _ = self.setexpr(so.get("right"), ctes)
            if not lc.open and not rc.open and len(lc.names) != len(rc.names):
                self.problem("set_operation_arity", "left has %d columns, right has %d" % (len(lc.names), len(rc.names)))
            return lc, None, []
        return Cols([], True), None, []

    def relation(self, r, ctes):
        """TableFactor -> (alias, Cols)"""
        if not isinstance(r, dict):
            return (None, Cols([], True))
        if "Table" in r:
            t = r["Table"]
            parts = obj_name(t.get("name"))
            alias = ident_value((t.get("alias") or {}).get("name")) if t.get("alias") else None
            if not parts:
                return (alias, Cols([], True))
            tname = parts[-1]
            if t.get("args") is not None:
                return (alias or tname, Cols([], True))
            cols = None
            if len(parts) == 1 and tname.lower() in ctes:
                cols = ctes[tname.lower()]
            elif self.schema is not None:
                if tname.lower() in self.schema:
                    cols = Cols(self.schema[tname.lower()], False)
                elif len(parts) == 1:
                    self.problem("unknown_table", "table %r is neither a CTE in scope nor a schema table" % tname)
                    cols = Cols([], True)
            if cols is None:
                cols = Cols([], True)
            if alias is None and (len(parts) > 1 or "." in tname):
                # schema-qualified table without alias: how it may be referred to is dialect business
                return (None, cols)
            return (alias or tname, cols)
        if "Derived" in r:
            d = r["Derived"]
            self.stats["derived"] += 1
            alias = ident_value((d.get("alias") or {}).get("name")) if d.get("alias") else None
            cols = self.query(d["subquery"], ctes)
            return (alias, cols)
        return (None, Cols([], True))

    def select(self, s, ctes):
        self.stats["selects"] += 1
        scope = []
        for twj in s.get("from") or []:
            first = self.relation(twj.get("relation"), ctes)
            scope.append(first)
            for j in twj.get("joins") or []:
                rel = self.relation(j.get("relation"), ctes)
                scope.append(rel)
                jo = j.get("join_operator")
                on = None
                if isinstance(jo, dict):
                    for v in jo.values():
                        if isinstance(v, dict) and "On" in v:
                            on = v["On"]
                if on is not None:
                    self.expr(on, list(scope), ctes, where="ON")
        if not (s.get("from") or []):
            scope_eff = []      # SELECT without FROM: only literals allowed
        else:
            scope_eff = scope
        proj = s.get("projection") or []
        if not proj:
            self.problem("empty_projection", "SELECT with no projection items")
        aliases = []
        out_names, out_open = [], False
        for item in proj:
            if item == "Wildcard" or (isinstance(item, dict) and "Wildcard" in item):
                excl, understood = wildcard_exclusions(item.get("Wildcard") if isinstance(item, dict) else None)
                if not understood:
                    out_open = True
                for (_, c) in scope:
                    out_names += c.without(excl)
                    out_open = out_open or c.open
                if not scope:
                    out_open = True
                elif excl and not any(c.open for (_, c) in scope):
                    for x in excl:
                        if not any(c.has(x) for (_, c) in scope):
                            self.problem("excluded_column_unknown", "* EXCLUDE (%s) but no relation in scope has that column" % x)
                continue
            if isinstance(item, dict) and "QualifiedWildcard" in item:
                qw = item["QualifiedWildcard"]
                nm = None
                try:
                    nm = obj_name(qw[0].get("ObjectName"))[-1]
                except Exception:
                    pass
                rel = [c for (a, c) in scope if a and nm and a.lower() == nm.lower()]
                try:
                    nparts = len(obj_name(qw[0].get("ObjectName")))
                except Exception:
                    nparts = 1
                if nm is None or nparts > 1:
                    out_open = True
                elif not rel:
                    if not any(a is None for (a, _) in scope):
                        self.problem("unknown_relation", "%s.* but no relation %r in FROM" % (nm, nm))
                    out_open = True
                else:
                    excl, understood = wildcard_exclusions(qw[1] if len(qw) > 1 else None)
                    out_names += rel[0].without(excl)
                    out_open = out_open or rel[0].open or not understood
                    if not rel[0].open:
                        for x in excl:
                            if not rel[0].has(x):
                                self.problem("excluded_column_unknown", "%s.* EXCLUDE (%s) but %s has columns %r" % (nm, x, nm, rel[0].names[:12]))
                continue
            if isinstance(item, dict) and "UnnamedExpr" in item:
                e = item["UnnamedExpr"]
                self.expr(e, scope_eff, ctes, where="SELECT")
                if isinstance(e, dict) and "Identifier" in e:
                    out_names.append(e["Identifier"].get("value", "?"))
                elif isinstance(e, dict) and "CompoundIdentifier" in e:
                    out_names.append(e["CompoundIdentifier"][-1].get("value", "?"))
                else:
                    out_names.append("\x00unnamed")
                continue
            if isinstance(item, dict) and "ExprWithAlias" in item:
                ea = item["ExprWithAlias"]
                self.expr(ea.get("expr"), scope_eff, ctes, where="SELECT")
                a = ident_value(ea.get("alias"))
                out_names.append(a or "?")
                if a:
                    aliases.append(a)
                continue
            out_open = True
        # root-cause monitor: an aggregate function call (not a window function) next to a plain column
        # reference in the projection of a SELECT that has no GROUP BY.  The compiler never means that: it is
        # what is left when an aggregation is evaluated in another query than the one that groups its rows.
        gb0 = s.get("group_by")
        grouped = isinstance(gb0, dict) and (("Expressions" in gb0 and gb0["Expressions"] and gb0["Expressions"][0]) or "All" in gb0)
        if not grouped and self.misplaced is not None:
            agg, bare = _agg_and_bare(proj)
            if agg and bare:
                self.misplaced.append("SELECT without GROUP BY mixes %s(..) with the plain column %s" % (agg, bare))
        for key, where in (("selection", "WHERE"), ("having", "HAVING"), ("qualify", "QUALIFY")):
            if s.get(key) is not None:
                self.expr(s[key], scope_eff, ctes, extra=aliases if key != "selection" else [], where=where)
        gb = s.get("group_by")
        if isinstance(gb, dict) and "Expressions" in gb:
            for e in gb["Expressions"][0]:
                self.expr(e, scope_eff, ctes, extra=aliases, where="GROUP BY")
        for key in ("sort_by", "cluster_by", "distribute_by"):
            for e in s.get(key) or []:
                self.expr(e.get("expr") if isinstance(e, dict) and "expr" in e else e, scope_eff, ctes, extra=aliases, where=key)
        d = s.get("distinct")
        if isinstance(d, dict) and "On" in d:
            for e in d["On"]:
                self.expr(e, scope_eff, ctes, extra=aliases, where="DISTINCT ON")
        return Cols(out_names, out_open), scope_eff, aliases

    # ---- expressions
    def expr(self, e, scope, ctes, extra=None, where="?"):
        extra = [x.lower() for x in (extra or [])]
        self._walk(e, scope, ctes, extra, where)

    def _walk(self, e, scope, ctes, extra, where):
        if isinstance(e, list):
            for x in e:
                self._walk(x, scope, ctes, extra, where)
            return
        if not isinstance(e, dict):
            return
        for k, v in e.items():
            if k == "Identifier" and isinstance(v, dict) and "value" in v:
                self.ref([v["value"]], scope, extra, where, quoted=v.get("quote_style") is not None)
            elif k == "CompoundIdentifier" and isinstance(v, list):
                parts = [ident_value(p) for p in v]
                if all(parts):
                    self.ref(parts, scope, extra, where, quoted=True)
            elif k == "Function" and isinstance(v, dict):
                for kk, vv in v.items():
                    if kk != "name":
                        self._walk(vv, scope, ctes, extra, where)
            elif k in ("Subquery", "Exists", "InSubquery") or (k == "subquery"):
                # nested query: own scope (the compiler does not emit correlated sub-queries)
                q = v.get("subquery") if isinstance(v, dict) and "subquery" in v else v
                if isinstance(v, dict) and "expr" in v:
                    self._walk(v["expr"], scope, ctes, extra, where)
                if isinstance(q, dict) and "body" in q:
                    self.query(q, ctes)
            elif k in ("data_type", "span", "select_token", "token", "Value", "TypedString", "Interval", "field", "leading_field", "last_field"):
                if k == "Interval":
                    pass
                continue
            else:
                self._walk(v, scope, ctes, extra, where)

    def ref(self, parts, scope, extra, where, quoted):
        self.stats["refs_checked"] += 1
        if len(parts) == 1:
            c = parts[0]
            if not quoted and c.lower() in KEYWORD_IDENTS:
                return
            if c.lower() in extra:
                return
            if not scope:
                self.problem("unresolved_column", "%s: column %r referenced but the SELECT has no FROM" % (where, c))
                return
            if any(cols.has(c) for (_, cols) in scope):
                if any(cols.open for (_, cols) in scope):
                    self.stats["refs_open"] += 1
                n = sum(cols.names.count(c.lower()) for (_, cols) in scope)
                if n > 1:
                    self.ambiguous.append("%s: %r names %d columns in scope" % (where, c, n))
                return
            self.problem("unresolved_column", "%s: column %r is in no relation in scope %r" % (where, c, [a for a, _ in scope]))
            return
        if len(parts) > 2:
            # schema.table.column / struct field access: cannot be decided without knowing which it is
            self.stats["refs_open"] += 1
            return
        t, c = parts[-2], parts[-1]
        rel = [cols for (a, cols) in scope if a is not None and a.lower() == t.lower()]
        if not rel:
            if any(a is None for (a, _) in scope):
                self.stats["refs_open"] += 1
                return       # an un-aliased derived table / unknown factor: cannot decide
            self.problem("unknown_relation", "%s: %s.%s but no relation named %r in scope %r" % (where, t, c, t, [a for a, _ in scope]))
            return
        if not any(cols.has(c) for cols in rel):
            self.problem("unresolved_column", "%s: relation %r has columns %r, not %r" % (where, t, rel[0].names[:12], c))
        elif any(cols.open for cols in rel):
            self.stats["refs_open"] += 1
        if sum(cols.names.count(c.lower()) for cols in rel) > 1:
            # the relation exposes two columns of that name (SELECT a.*, b.* in a sub-query): engines either
            # reject the reference or silently take the first
            self.ambiguous.append("%s: %s.%s names %d columns of that relation" % (where, t, c, sum(cols.names.count(c.lower()) for cols in rel)))


def bind(ast, schema=None):
    """ast: the JSON list of statements from the worker's sqlparse op."""
    b = Binder(schema)
    b.ambiguous = []
    b.misplaced = []
    if not isinstance(ast, list) or len(ast) != 1 or not isinstance(ast[0], dict) or "Query" not in ast[0]:
        return {"problems": [{"kind": "not_single_query", "detail": "statement is not exactly one query"}], "stats": b.stats}
    out = None
    try:
        out = b.query(ast[0]["Query"], {})
    except Exception as ex:   # monitor bug => no verdict from it
        return {"problems": [], "stats": b.stats, "monitor_error": repr(ex), "ambiguous": [], "misplaced_aggregate": []}
    return {"problems": b.problems, "stats": b.stats, "ambiguous": b.ambiguous, "misplaced_aggregate": b.misplaced,
            "out": {"names": list(out.orig), "open": bool(out.open)} if out is not None else None}
