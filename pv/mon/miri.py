"""Miri phases (thorough tier, or PV_MIRI=1): run harness/pv-miri under `cargo +nightly miri run`.

Miri interprets the real lexer / parser / formatter (and the chumsky, regex, serde code they call) and stops
at the first undefined behaviour - out-of-bounds or misaligned access, use of uninitialised memory, invalid
values, violations of the aliasing model, data races between threads.  The phase yields a verdict only if the
self-test (an out-of-bounds read through a raw pointer) is reported by this very build; otherwise its status is
`unavailable` / `not_effective` and it decides nothing (never folded into `held`).
Costs ~4 s (tokens + re-lex) to ~13 s (parse + format + re-parse) per short source, so shards stay small."""
import json, os, re, shutil, subprocess, tempfile, time
from .. import core

TARGET = os.path.join(core.HARNESS, "target-miri")


def _env():
    return dict(os.environ, CARGO_NET_OFFLINE="true", CARGO_TARGET_DIR=TARGET,
                MIRIFLAGS="-Zmiri-disable-isolation", RUST_BACKTRACE="0")


def _cmd(*args):
    return ["cargo", "+nightly", "miri", "run", "--offline", "-q", "-p", "pv-miri", "--"] + list(args)


def prepare(info):
    """Build the Miri target once and run the self-test.  Returns True if Miri is effective here."""
    t0 = time.time()
    try:
        st = subprocess.run(_cmd("--selftest"), cwd=core.HARNESS, env=_env(), stdout=subprocess.PIPE, stderr=subprocess.PIPE,
                            text=True, timeout=1800)
    except Exception as e:
        info.update(status="unavailable", reason="miri build/run: %s" % e)
        return False
    info["build_and_selftest_s"] = round(time.time() - t0)
    if "Undefined Behavior" in st.stderr and st.returncode != 0:
        return True
    if "selftest_read" in st.stdout:
        info.update(status="not_effective", reason="self-test out-of-bounds read was not reported")
    else:
        info.update(status="unavailable", reason="miri did not run: " + st.stderr[-300:])
    return False


def run_phase(mode, srcs, per_proc, info, prop, timeout=3000):
    """mode: c17 | parse | threads.  Returns (violations, results) where results[i] is the per-source result
    (None where the process stopped before reaching it)."""
    info.update(status="not_run", mode=mode)
    if not prepare(info):
        return [], []
    info.update(status="ran", sources=len(srcs), processes=0, completed_sources=0, ub_reports=0, unsupported=0, watchdog=0)
    tmp = tempfile.mkdtemp(prefix="pvmiri", dir=TARGET)
    batches = [srcs[i:i + per_proc] for i in range(0, len(srcs), per_proc)]
    results = [None] * len(srcs)
    viols = []
    running = []
    pending = list(enumerate(batches))
    deadline = time.time() + timeout

    def finish(bi, pr, t_start):
        base = bi * per_proc
        try:
            out, err = pr.communicate(timeout=max(1, deadline - time.time()))
        except subprocess.TimeoutExpired:
            pr.kill()
            out, err = pr.communicate()
            info["watchdog"] += 1
            return
        info["processes"] += 1
        last = -1
        for line in out.splitlines():
            if line.startswith("@@ "):
                last = int(line[3:])
            elif line.startswith("RESULT "):
                try:
                    res = json.loads(line[7:])
                except Exception:
                    res = None
                if isinstance(res, list):
                    for k, r in enumerate(res):
                        results[base + k] = r
                    info["completed_sources"] += len(res)
                elif isinstance(res, dict):
                    for k in range(len(batches[bi])):
                        results[base + k] = "mismatch" if k in res.get("mismatches", []) else "agree"
                    info["completed_sources"] += len(batches[bi])
        if "error: Undefined Behavior" in err or "error: unsupported operation" in err or re.search(r"^error: .*(deadlock|memory leak|abnormal termination)", err, re.M):
            m = re.search(r"error: ([^\n]*)", err)
            headline = m.group(1) if m else "?"
            src = batches[bi][last] if 0 <= last < len(batches[bi]) else None
            if "unsupported operation" in headline:
                info["unsupported"] += 1
                info.setdefault("unsupported_samples", []).append(headline[:120])
                return
            info["ub_reports"] += 1
            frames = re.findall(r"-->\s+(\S+?):(\d+):\d+", err)
            own = [f for f, _ in frames if "/repo/" in f or "prqlc" in f]
            site = re.sub(r"^.*/registry/src/[^/]+/", "dep:", (own[0] if own else (frames[0][0] if frames else "?")))
            kind = re.sub(r"[^a-z]+", "_", headline.split(":")[0].lower()).strip("_") or "report"
            detail = re.sub(r"alloc\d+", "allocN", headline)
            viols.append({"property": prop, "symptom": "miri:" + kind, "shape": "%s :: %s" % (mode, site.replace("/repo/", "")),
                          "witness": {"miri": mode, "src": src}, "detail": (detail + " || " + err[-1200:])[:1800]})

    while pending or running:
        while pending and len(running) < core.NCPU:
            bi, b = pending.pop(0)
            f = os.path.join(tmp, "b%d.json" % bi)
            json.dump(b, open(f, "w"))
            pr = subprocess.Popen(_cmd(mode, f), cwd=core.HARNESS, env=_env(), stdout=subprocess.PIPE, stderr=subprocess.PIPE, text=True)
            running.append((bi, pr, time.time()))
        still = []
        for (bi, pr, t0) in running:
            if pr.poll() is None and time.time() < deadline:
                still.append((bi, pr, t0))
            else:
                finish(bi, pr, t0)
        running = still
        if running:
            time.sleep(0.5)
    shutil.rmtree(tmp, ignore_errors=True)
    return viols, results


def replay(mode, src, prop):
    info = {}
    v, _ = run_phase(mode, [src], 1, info, prop, timeout=1800)
    return v
