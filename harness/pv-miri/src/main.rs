//! argv[1] = mode (`c17` | `parse` | `threads` | `--selftest`), argv[2] = file holding a JSON array of sources.
//! `c17`: the same monitor the native worker runs (tokens tile the source and re-lex to themselves),
//! now with Miri watching the lexer (chumsky's unsafe code, integer overflow, invalid slicing).
//! `parse`: prql_to_pl, pl_to_prql, and prql_to_pl of the formatted text; panics are recorded per source.
//! `threads`: two threads lex+parse the same source at the same time (Miri's data-race detector
//! watches the lazily initialised statics of the lexer/parser); results must agree.
//! Miri stops the process at the first undefined behaviour with "error: Undefined Behavior" on stderr,
//! after the marker line `@@ <index>` of the source being processed has been printed.
#[path = "../../pv-worker/src/c17.rs"]
mod c17;

use serde_json::{json, Value};

fn selftest() {
    // out-of-bounds read through a raw pointer: Miri must stop here
    let v = vec![1u8, 2, 3];
    let p = v.as_ptr();
    let x = unsafe { *p.add(7) };
    println!("{{\"selftest_read\": {x}}}");
}

fn parse_one(src: &str) -> Value {
    let r = std::panic::catch_unwind(|| match prqlc::prql_to_pl(src) {
        Ok(pl) => match prqlc::pl_to_prql(&pl) {
            Ok(text) => match prqlc::prql_to_pl(&text) {
                Ok(_) => "ok:fmt_reparsed",
                Err(_) => "ok:fmt_not_reparsed",
            },
            Err(_) => "ok:fmt_err",
        },
        Err(e) => {
            if e.inner.is_empty() || e.inner.iter().any(|m| m.reason.is_empty()) {
                "err:empty"
            } else {
                "err"
            }
        }
    });
    match r {
        Ok(s) => json!(s),
        Err(_) => json!("panic"),
    }
}

fn outcome(src: &str) -> String {
    match std::panic::catch_unwind(|| prqlc::prql_to_pl(src)) {
        Ok(Ok(pl)) => format!("OK:{}", serde_json::to_string(&pl).unwrap_or_default()),
        Ok(Err(e)) => format!("ERR:{:?}", e.inner.iter().map(|m| (m.reason.clone(), m.span)).collect::<Vec<_>>()),
        Err(_) => "PANIC".into(),
    }
}

fn main() {
    let args: Vec<String> = std::env::args().collect();
    let mode = args.get(1).map(|s| s.as_str()).unwrap_or("");
    if mode == "--selftest" {
        selftest();
        return;
    }
    let text = std::fs::read_to_string(&args[2]).expect("input file");
    let srcs: Vec<String> = serde_json::from_str(&text).expect("json array of strings");
    std::panic::set_hook(Box::new(|_| {}));
    match mode {
        "c17" => {
            let mut out = vec![];
            for (i, s) in srcs.iter().enumerate() {
                println!("@@ {i}");
                out.push(c17::batch(&json!({"srcs": [s], "max_viol": 20})));
            }
            println!("RESULT {}", json!(out));
        }
        "parse" => {
            let mut out = vec![];
            for (i, s) in srcs.iter().enumerate() {
                println!("@@ {i}");
                out.push(parse_one(s));
            }
            println!("RESULT {}", json!(out));
        }
        "threads" => {
            let mut mism = vec![];
            for (i, s) in srcs.iter().enumerate() {
                println!("@@ {i}");
                let hs: Vec<_> = (0..2)
                    .map(|_| {
                        let s = s.clone();
                        std::thread::spawn(move || outcome(&s))
                    })
                    .collect();
                let outs: Vec<String> = hs.into_iter().map(|h| h.join().unwrap_or_else(|_| "JOIN-PANIC".into())).collect();
                if outs[0] != outs[1] {
                    mism.push(i);
                }
            }
            println!("RESULT {}", json!({"programs": srcs.len(), "mismatches": mism}));
        }
        _ => {
            eprintln!("unknown mode");
            std::process::exit(3);
        }
    }
}
