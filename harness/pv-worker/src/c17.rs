//! C17 monitor: tokens tile the source and re-lex to themselves.
use prqlc::lr::{Token, TokenKind};
use serde_json::{json, Value};
use std::collections::BTreeMap;

pub fn tag(k: &TokenKind) -> &'static str {
    use TokenKind::*;
    match k {
        NewLine => "NewLine",
        Ident(_) => "Ident",
        Keyword(_) => "Keyword",
        Literal(l) => match l {
            prqlc::lr::Literal::Null => "Lit.Null",
            prqlc::lr::Literal::Integer(_) => "Lit.Integer",
            prqlc::lr::Literal::Float(_) => "Lit.Float",
            prqlc::lr::Literal::Boolean(_) => "Lit.Boolean",
            prqlc::lr::Literal::String(_) => "Lit.String",
            prqlc::lr::Literal::RawString(_) => "Lit.RawString",
            prqlc::lr::Literal::Date(_) => "Lit.Date",
            prqlc::lr::Literal::Time(_) => "Lit.Time",
            prqlc::lr::Literal::Timestamp(_) => "Lit.Timestamp",
            prqlc::lr::Literal::ValueAndUnit(_) => "Lit.ValueAndUnit",
        },
        Param(_) => "Param",
        Range { .. } => "Range",
        Interpolation(..) => "Interpolation",
        Control(_) => "Control",
        ArrowThin => "ArrowThin",
        ArrowFat => "ArrowFat",
        Eq => "Eq",
        Ne => "Ne",
        Gte => "Gte",
        Lte => "Lte",
        RegexSearch => "RegexSearch",
        And => "And",
        Or => "Or",
        Coalesce => "Coalesce",
        DivInt => "DivInt",
        Pow => "Pow",
        Annotate => "Annotate",
        Comment(_) => "Comment",
        DocComment(_) => "DocComment",
        LineWrap(_) => "LineWrap",
        Start => "Start",
    }
}

fn inline_ws(c: char) -> bool {
    c.is_whitespace() && !matches!(c, '\n' | '\r' | '\x0B' | '\x0C' | '\u{85}' | '\u{2028}' | '\u{2029}')
}

fn kinds_equal(a: &TokenKind, b: &TokenKind) -> bool {
    // Float NaN cannot be lexed; PartialEq is adequate.
    a == b
}

pub struct Report {
    pub accepted: bool,
    pub violations: Vec<(String, String)>, // (clause[:shape], detail)
    pub tags: Vec<&'static str>,
    pub adj_ws: Vec<bool>, // whether whitespace separated token i and i+1
}

pub fn analyse(src: &str, relex: bool) -> Report {
    let mut rep = Report { accepted: false, violations: vec![], tags: vec![], adj_ws: vec![] };
    match prqlc::prql_to_tokens(src) {
        Err(e) => {
            if e.inner.is_empty() {
                rep.violations.push(("reject_no_error".into(), "rejected with zero errors".into()));
            }
            for m in &e.inner {
                if m.reason.is_empty() {
                    rep.violations.push(("reject_empty_reason".into(), String::new()));
                }
            }
        }
        Ok(tokens) => {
            rep.accepted = true;
            let toks: &Vec<Token> = &tokens.0;
            let n = src.len();
            let mut i0 = 0;
            if let Some(t) = toks.first() {
                if t.kind == TokenKind::Start && t.span == (0..0) {
                    i0 = 1;
                } else {
                    rep.violations.push(("no_start".into(), format!("{:?}", t)));
                }
            }
            let mut prev_end = 0usize;
            for (idx, t) in toks.iter().enumerate().skip(i0) {
                let (s, e) = (t.span.start, t.span.end);
                rep.tags.push(tag(&t.kind));
                if !(s <= e && e <= n) {
                    rep.violations.push(("span_bounds".into(), format!("token {idx} {:?} {s}..{e} len {n}", t.kind)));
                    continue;
                }
                if !(src.is_char_boundary(s) && src.is_char_boundary(e)) {
                    rep.violations.push(("char_boundary".into(), format!("token {idx} {s}..{e}")));
                    continue;
                }
                if s < prev_end {
                    rep.violations.push(("overlap_or_order".into(), format!("token {idx} {s}..{e} prev_end {prev_end}")));
                    prev_end = prev_end.max(e);
                    continue;
                }
                let gap = &src[prev_end..s];
                if !gap.chars().all(inline_ws) {
                    rep.violations.push(("gap".into(), format!("before token {idx}: {:?}", gap)));
                }
                if idx > i0 {
                    rep.adj_ws.push(!gap.is_empty());
                }
                if s == e {
                    rep.violations.push(("empty_token".into(), format!("token {idx} {:?} {s}..{e}", t.kind)));
                }
                if relex && s < e {
                    let slice = &src[s..e];
                    match prqlc::prql_to_tokens(slice) {
                        Ok(r) => {
                            let rt = &r.0;
                            let ok = rt.len() == 2
                                && rt[0].kind == TokenKind::Start
                                && kinds_equal(&rt[1].kind, &t.kind);
                            if !ok {
                                rep.violations.push((
                                    format!("relex:{}->{}\u{1}{}", tag(&t.kind), rt.iter().skip(1).map(|x| tag(&x.kind)).collect::<Vec<_>>().join("+"), slice),
                                    format!("slice {:?} in context {:?}, alone {:?}", slice, t.kind,
                                            rt.iter().skip(1).map(|x| format!("{:?}", x.kind)).collect::<Vec<_>>()),
                                ));
                            }
                        }
                        Err(_) => {
                            rep.violations.push((format!("relex:{}->rejected\u{1}{}", tag(&t.kind), slice), format!("slice {:?} ({:?}) rejected alone", slice, t.kind)));
                        }
                    }
                }
                prev_end = e;
            }
            let tail = &src[prev_end.min(n)..];
            if !tail.chars().all(inline_ws) {
                rep.violations.push(("gap".into(), format!("after last token: {:?}", tail)));
            }
        }
    }
    rep
}

pub fn check_one(src: &str, detail: bool) -> Value {
    let rep = analyse(src, true);
    let mut out = json!({
        "accepted": rep.accepted,
        "violations": rep.violations.iter().map(|(c, d)| json!({"clause": c, "detail": d})).collect::<Vec<_>>(),
        "tags": rep.tags,
        "adj_ws": rep.adj_ws,
    });
    if detail {
        if let Ok(t) = prqlc::prql_to_tokens(src) {
            out["tokens"] = Value::Array(
                t.0.iter()
                    .map(|t| json!({"kind": format!("{:?}", t.kind), "start": t.span.start, "end": t.span.end}))
                    .collect(),
            );
        }
    }
    out
}

#[derive(Default)]
struct Acc {
    total: u64,
    accepted: u64,
    rejected: u64,
    ntokens: u64,
    multibyte_tokens: u64,
    viol: Vec<Value>,
    viol_count: BTreeMap<String, u64>,
    adj: BTreeMap<(String, String, bool), u64>,
    max_viol: usize,
}

impl Acc {
    fn feed(&mut self, s: &str) {
        let r = std::panic::catch_unwind(|| analyse(s, true));
        self.total += 1;
        match r {
            Ok(rep) => {
                if rep.accepted { self.accepted += 1 } else { self.rejected += 1 }
                self.ntokens += rep.tags.len() as u64;
                if rep.accepted && !s.is_ascii() { self.multibyte_tokens += rep.tags.len() as u64; }
                for w in 0..rep.tags.len().saturating_sub(1) {
                    let ws = rep.adj_ws.get(w).copied().unwrap_or(false);
                    *self.adj.entry((rep.tags[w].to_string(), rep.tags[w + 1].to_string(), ws)).or_insert(0) += 1;
                }
                for (c, d) in rep.violations {
                    let n = self.viol_count.entry(c.clone()).or_insert(0);
                    *n += 1;
                    // keep the shortest few witnesses per class
                    if *n <= 3 && self.viol.len() < self.max_viol {
                        self.viol.push(json!({"src": s, "clause": c, "detail": d}));
                    }
                }
            }
            Err(_) => {
                *self.viol_count.entry("panic".into()).or_insert(0) += 1;
                if self.viol.len() < self.max_viol {
                    self.viol.push(json!({"src": s, "clause": "panic", "detail": ""}));
                }
            }
        }
    }
    fn out(self, space: u64) -> Value {
        json!({
            "total": self.total, "accepted": self.accepted, "rejected": self.rejected, "tokens": self.ntokens,
            "multibyte_tokens": self.multibyte_tokens,
            "space": space,
            "viol_count": self.viol_count,
            "violations": self.viol,
            "adjacency": self.adj.iter().map(|((a, b, w), n)| json!([a, b, w, n])).collect::<Vec<_>>(),
        })
    }
}

/// Check a batch of given strings.
pub fn batch(req: &Value) -> Value {
    let mut acc = Acc { max_viol: req.get("max_viol").and_then(|v| v.as_u64()).unwrap_or(200) as usize, ..Default::default() };
    let mut n = 0u64;
    if let Some(a) = req.get("srcs").and_then(|v| v.as_array()) {
        for s in a {
            if let Some(s) = s.as_str() {
                acc.feed(s);
                n += 1;
            }
        }
    }
    acc.out(n)
}

/// Enumerate all strings of length 0..=max_len over `alphabet`; shard by index.
pub fn enumerate(req: &Value) -> Value {
    let alphabet: Vec<char> = req.get("alphabet").and_then(|v| v.as_str()).unwrap_or("").chars().collect();
    let max_len = req.get("max_len").and_then(|v| v.as_u64()).unwrap_or(3) as usize;
    let min_len = req.get("min_len").and_then(|v| v.as_u64()).unwrap_or(0) as usize;
    let shard = req.get("shard").and_then(|v| v.as_u64()).unwrap_or(0);
    let nshards = req.get("nshards").and_then(|v| v.as_u64()).unwrap_or(1).max(1);
    let mut acc = Acc { max_viol: req.get("max_viol").and_then(|v| v.as_u64()).unwrap_or(200) as usize, ..Default::default() };
    let k = alphabet.len();
    let mut index = 0u64;
    for len in min_len..=max_len {
        let mut digits = vec![0usize; len];
        loop {
            if index % nshards == shard {
                let s: String = digits.iter().map(|&d| alphabet[d]).collect();
                acc.feed(&s);
            }
            index += 1;
            let mut done = len == 0;
            let mut p = len;
            while p > 0 {
                p -= 1;
                digits[p] += 1;
                if digits[p] < k { break; }
                digits[p] = 0;
                if p == 0 { done = true; }
            }
            if done { break; }
        }
    }
    acc.out(index)
}
