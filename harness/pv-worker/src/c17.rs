//! C17 monitor: tokens tile the source and re-lex to themselves.
use prqlc::lr::{Token, TokenKind};
use serde_json::{json, Value};
use std::collections::BTreeMap;

pub fn tag(k: &TokenKind) -> &'static str {
    use TokenKind::*;
    match k {
        NewLine => "NewLine",
        Ident(_) => "Ident",
        Keyword(_) => "Keyword",
        Literal(l) => match l {
            prqlc::lr::Literal::Null => "Lit.Null",
            prqlc::lr::Literal::Integer(_) => "Lit.Integer",
            prqlc::lr::Literal::Float(_) => "Lit.Float",
            prqlc::lr::Literal::Boolean(_) => "Lit.Boolean",
            prqlc::lr::Literal::String(_) => "Lit.String",
            prqlc::lr::Literal::RawString(_) => "Lit.RawString",
            prqlc::lr::Literal::Date(_) => "Lit.Date",
            prqlc::lr::Literal::Time(_) => "Lit.Time",
            prqlc::lr::Literal::Timestamp(_) => "Lit.Timestamp",
            prqlc::lr::Literal::ValueAndUnit(_) => "Lit.ValueAndUnit",
        },
        Param(_) => "Param",
        Range { .. } => "Range",
        Interpolation(..) => "Interpolation",
        Control(_) => "Control",
        ArrowThin => "ArrowThin",
        ArrowFat => "ArrowFat",
        Eq => "Eq",
        Ne => "Ne",
        Gte => "Gte",
        Lte => "Lte",
        RegexSearch => "RegexSearch",
        And => "And",
        Or => "Or",
        Coalesce => "Coalesce",
        DivInt => "DivInt",
        Pow => "Pow",
        Annotate => "Annotate",
        Comment(_) => "Comment",
        DocComment(_) => "DocComment",
        LineWrap(_) => "LineWrap",
        Start => "Start",
    }
}

fn inline_ws(c: char) -> bool {
    c.is_whitespace() && !matches!(c, '\n' | '\r' | '\x0B' | '\x0C' | '\u{85}' | '\u{2028}' | '\u{2029}')
}

fn kinds_equal(a: &TokenKind, b: &TokenKind) -> bool {
    // Float NaN cannot be lexed; PartialEq is adequate.
    a == b
}

pub struct Report {
    pub accepted: bool,
    pub violations: Vec<(String, String)>, // (clause, detail)
    pub tags: Vec<&'static str>,
    pub adj_ws: Vec<bool>, // whether whitespace separated token i and i+1
}

pub fn analyse(src: &str, relex: bool) -> Report {
    let mut rep = Report { accepted: false, violations: vec![], tags: vec![], adj_ws: vec![] };
    match prqlc::prql_to_tokens(src) {
        Err(e) => {
            if e.inner.is_empty() {
                rep.violations.push(("reject_no_error".into(), "rejected with zero errors".into()));
            }
            for m in &e.inner {
                if m.reason.is_empty() {
                    rep.violations.push(("reject_empty_reason".into(), String::new()));
                }
            }
        }
        Ok(tokens) => {
            rep.accepted = true;
            let toks: &Vec<Token> = &tokens.0;
            let n = src.len();
            let mut i0 = 0;
            if let Some(t) = toks.first() {
                if t.kind == TokenKind::Start && t.span == (0..0) {
                    i0 = 1;
                } else {
                    rep.violations.push(("no_start".into(), format!("{:?}", t)));
                }
            }
            let mut prev_end = 0usize;
            for (idx, t) in toks.iter().enumerate().skip(i0) {
                let (s, e) = (t.span.start, t.span.end);
                rep.tags.push(tag(&t.kind));
                if !(s <= e && e <= n) {
                    rep.violations.push(("span_bounds".into(), format!("token {idx} {:?} {s}..{e} len {n}", t.kind)));
                    continue;
                }
                if !(src.is_char_boundary(s) && src.is_char_boundary(e)) {
                    rep.violations.push(("char_boundary".into(), format!("token {idx} {s}..{e}")));
                    continue;
                }
                if s < prev_end {
                    rep.violations.push(("overlap_or_order".into(), format!("token {idx} {s}..{e} prev_end {prev_end}")));
                    prev_end = prev_end.max(e);
                    continue;
                }
                let gap = &src[prev_end..s];
                if !gap.chars().all(inline_ws) {
                    rep.violations.push(("gap".into(), format!("before token {idx}: {:?}", gap)));
                }
                if idx > i0 {
                    rep.adj_ws.push(!gap.is_empty());
                }
                if s == e {
                    rep.violations.push(("empty_token".into(), format!("token {idx} {:?} {s}..{e}", t.kind)));
                }
                if relex && s < e {
                    let slice = &src[s..e];
                    match prqlc::prql_to_tokens(slice) {
                        Ok(r) => {
                            let rt = &r.0;
                            let ok = rt.len() == 2
                                && rt[0].kind == TokenKind::Start
                                && kinds_equal(&rt[1].kind, &t.kind);
                            if !ok {
                                rep.violations.push((
                                    "relex".into(),
                                    format!("slice {:?} in context {:?}, alone {:?}", slice, t.kind,
                                            rt.iter().skip(1).map(|x| format!("{:?}", x.kind)).collect::<Vec<_>>()),
                                ));
                            }
                        }
                        Err(_) => {
                            rep.violations.push(("relex".into(), format!("slice {:?} ({:?}) rejected alone", slice, t.kind)));
                        }
                    }
                }
                prev_end = e;
            }
            let tail = &src[prev_end.min(n)..];
            if !tail.chars().all(inline_ws) {
                rep.violations.push(("gap".into(), format!("after last token: {:?}", tail)));
            }
        }
    }
    rep
}

pub fn check_one(src: &str, detail: bool) -> Value {
    let rep = analyse(src, true);
    let mut out = json!({
        "accepted": rep.accepted,
        "violations": rep.violations.iter().map(|(c, d)| json!({"clause": c, "detail": d})).collect::<Vec<_>>(),
        "tags": rep.tags,
        "adj_ws": rep.adj_ws,
    });
    if detail {
        if let Ok(t) = prqlc::prql_to_tokens(src) {
            out["tokens"] = Value::Array(
                t.0.iter()
                    .map(|t| json!({"kind": format!("{:?}", t.kind), "start": t.span.start, "end": t.span.end}))
                    .collect(),
            );
        }
    }
    out
}

/// Enumerate all strings of length 0..=max_len over `alphabet`; shard by index.
pub fn enumerate(req: &Value) -> Value {
    let alphabet: Vec<char> = req.get("alphabet").and_then(|v| v.as_str()).unwrap_or("").chars().collect();
    let max_len = req.get("max_len").and_then(|v| v.as_u64()).unwrap_or(3) as usize;
    let shard = req.get("shard").and_then(|v| v.as_u64()).unwrap_or(0);
    let nshards = req.get("nshards").and_then(|v| v.as_u64()).unwrap_or(1).max(1);
    let max_viol = req.get("max_viol").and_then(|v| v.as_u64()).unwrap_or(200) as usize;
    let k = alphabet.len();
    let mut total = 0u64;
    let mut accepted = 0u64;
    let mut rejected = 0u64;
    let mut ntokens = 0u64;
    let mut viol: Vec<Value> = vec![];
    let mut viol_count: BTreeMap<String, u64> = BTreeMap::new();
    let mut adj: BTreeMap<(String, String, bool), u64> = BTreeMap::new();
    let mut index = 0u64;
    for len in 0..=max_len {
        let mut digits = vec![0usize; len];
        loop {
            if index % nshards == shard {
                let s: String = digits.iter().map(|&d| alphabet[d]).collect();
                let r = std::panic::catch_unwind(|| analyse(&s, true));
                total += 1;
                match r {
                    Ok(rep) => {
                        if rep.accepted { accepted += 1 } else { rejected += 1 }
                        ntokens += rep.tags.len() as u64;
                        for w in 0..rep.tags.len().saturating_sub(1) {
                            let ws = rep.adj_ws.get(w).copied().unwrap_or(false);
                            *adj.entry((rep.tags[w].to_string(), rep.tags[w + 1].to_string(), ws)).or_insert(0) += 1;
                        }
                        for (c, d) in rep.violations {
                            *viol_count.entry(c.clone()).or_insert(0) += 1;
                            if viol.len() < max_viol {
                                viol.push(json!({"src": s, "clause": c, "detail": d}));
                            }
                        }
                    }
                    Err(_) => {
                        *viol_count.entry("panic".into()).or_insert(0) += 1;
                        if viol.len() < max_viol {
                            viol.push(json!({"src": s, "clause": "panic", "detail": ""}));
                        }
                    }
                }
            }
            index += 1;
            // increment (odometer)
            let mut done = len == 0;
            let mut p = len;
            while p > 0 {
                p -= 1;
                digits[p] += 1;
                if digits[p] < k { break; }
                digits[p] = 0;
                if p == 0 { done = true; }
            }
            if done { break; }
        }
    }
    json!({
        "total": total, "accepted": accepted, "rejected": rejected, "tokens": ntokens,
        "space": index,
        "viol_count": viol_count,
        "violations": viol,
        "adjacency": adj.iter().map(|((a, b, w), n)| json!([a, b, w, n])).collect::<Vec<_>>(),
    })
}
