//! Scope monitor over the sqlparser AST (C07). Placeholder until implemented.
use serde_json::{json, Value};
pub fn bind(_stmt: &sqlparser::ast::Statement, _schema: &Value) -> Value {
    json!({"unresolved": [], "unknown": true})
}
