//! C16 monitor: structural invariants of an RQ returned by the resolver.
use prqlc::ir::generic::{ColumnSort, WindowFrame, WindowKind};
use prqlc::ir::rq::*;
use serde_json::{json, Value};
use std::collections::{BTreeMap, HashMap, HashSet};

struct Ck {
    viol: Vec<String>,
    // where each cid was defined: (table index or usize::MAX for main, description)
    defined_global: HashMap<usize, String>,
    kinds: BTreeMap<String, u64>,
    n_pipelines: u64,
    max_pipeline_len: usize,
    instances: BTreeMap<usize, u64>,
}

fn expr_cids(e: &Expr, out: &mut Vec<usize>) {
    match &e.kind {
        ExprKind::ColumnRef(c) => out.push(c.get()),
        ExprKind::Literal(_) | ExprKind::Param(_) => {}
        ExprKind::SString(items) => {
            for it in items {
                if let prqlc_parser::generic::InterpolateItem::Expr { expr, .. } = it {
                    expr_cids(expr, out);
                }
            }
        }
        ExprKind::Case(cases) => {
            for c in cases {
                expr_cids(&c.condition, out);
                expr_cids(&c.value, out);
            }
        }
        ExprKind::Operator { args, .. } => {
            for a in args {
                expr_cids(a, out);
            }
        }
        ExprKind::Array(items) => {
            for a in items {
                expr_cids(a, out);
            }
        }
    }
}

fn sort_cids(s: &[ColumnSort<CId>], out: &mut Vec<usize>) {
    for c in s {
        out.push(c.column.get());
    }
}

fn frame_cids(f: &WindowFrame<Expr>, out: &mut Vec<usize>) {
    let _ = matches!(f.kind, WindowKind::Rows);
    if let Some(s) = &f.range.start {
        expr_cids(s, out);
    }
    if let Some(e) = &f.range.end {
        expr_cids(e, out);
    }
}

impl Ck {
    fn define(&mut self, cid: usize, place: &str) {
        if let Some(prev) = self.defined_global.get(&cid) {
            self.viol.push(format!("cid_defined_twice: column-{cid} at {place} and {prev}"));
        } else {
            self.defined_global.insert(cid, place.to_string());
        }
    }

    fn table_ref(&mut self, r: &TableRef, declared: &HashSet<usize>, place: &str, local: &mut HashSet<usize>) {
        *self.instances.entry(r.source.get()).or_insert(0) += 1;
        if !declared.contains(&r.source.get()) {
            self.viol.push(format!("tid_not_declared_earlier: table-{} referenced at {place}", r.source.get()));
        }
        for (_, cid) in &r.columns {
            self.define(cid.get(), place);
            local.insert(cid.get());
        }
    }

    fn uses(&mut self, used: &[usize], local: &HashSet<usize>, place: &str) {
        for u in used {
            if !local.contains(u) {
                if self.defined_global.contains_key(u) {
                    self.viol.push(format!("cid_not_visible: column-{u} used at {place} but defined elsewhere ({})", self.defined_global[u]));
                } else {
                    self.viol.push(format!("cid_used_before_definition: column-{u} at {place}"));
                }
            }
        }
    }

    fn pipeline(&mut self, ts: &[Transform], declared: &HashSet<usize>, place: &str, local: &mut HashSet<usize>, in_loop: bool) {
        self.n_pipelines += 1;
        self.max_pipeline_len = self.max_pipeline_len.max(ts.len());
        for (i, t) in ts.iter().enumerate() {
            let here = format!("{place}[{i}]{}", t.as_ref());
            *self.kinds.entry(t.as_ref().to_string()).or_insert(0) += 1;
            let mut used = vec![];
            match t {
                Transform::From(r) => {
                    if i != 0 && !in_loop {
                        self.viol.push(format!("from_not_first: {here}"));
                    }
                    self.table_ref(r, declared, &here, local);
                }
                Transform::Compute(c) => {
                    expr_cids(&c.expr, &mut used);
                    if let Some(w) = &c.window {
                        for p in &w.partition {
                            used.push(p.get());
                        }
                        sort_cids(&w.sort, &mut used);
                        frame_cids(&w.frame, &mut used);
                    }
                    self.uses(&used, local, &here);
                    self.define(c.id.get(), &here);
                    local.insert(c.id.get());
                }
                Transform::Select(cids) => {
                    for c in cids {
                        used.push(c.get());
                    }
                    self.uses(&used, local, &here);
                }
                Transform::Filter(e) => {
                    expr_cids(e, &mut used);
                    self.uses(&used, local, &here);
                }
                Transform::Aggregate { partition, compute } => {
                    for c in partition.iter().chain(compute.iter()) {
                        used.push(c.get());
                    }
                    self.uses(&used, local, &here);
                    // an aggregation collapses the rows of each partition: from here on the relation has exactly
                    // the partition columns and the aggregated computes; no other column of the pipeline exists
                    // any more (unlike a Select, which only hides columns that a later sort may still use)
                    local.clear();
                    for c in partition.iter().chain(compute.iter()) {
                        local.insert(c.get());
                    }
                }
                Transform::Sort(s) => {
                    sort_cids(s, &mut used);
                    self.uses(&used, local, &here);
                }
                Transform::Take(tk) => {
                    if let Some(s) = &tk.range.start {
                        expr_cids(s, &mut used);
                    }
                    if let Some(e) = &tk.range.end {
                        expr_cids(e, &mut used);
                    }
                    for p in &tk.partition {
                        used.push(p.get());
                    }
                    sort_cids(&tk.sort, &mut used);
                    self.uses(&used, local, &here);
                }
                Transform::Join { with, filter, .. } => {
                    self.table_ref(with, declared, &here, local);
                    expr_cids(filter, &mut used);
                    self.uses(&used, local, &here);
                }
                Transform::Append(r) => {
                    // the appended relation's instance columns are defined here, but they are not columns of
                    // this pipeline: after an append the pipeline still has the top relation's columns (the
                    // bottom is matched by position), so later transforms cannot refer to them
                    let mut not_visible = HashSet::new();
                    self.table_ref(r, declared, &here, &mut not_visible);
                }
                Transform::Loop(body) => {
                    let p = format!("{here}.loop");
                    self.pipeline(body, declared, &p, local, true);
                }
            }
        }
    }

    fn relation(&mut self, rel: &Relation, declared: &HashSet<usize>, place: &str) {
        if let RelationKind::Pipeline(ts) = &rel.kind {
            let mut local = HashSet::new();
            self.pipeline(ts, declared, place, &mut local, false);
            match ts.first() {
                Some(Transform::From(_)) => {}
                other => self.viol.push(format!(
                    "pipeline_no_from: {place} starts with {}",
                    other.map(|t| t.as_ref().to_string()).unwrap_or("nothing".into())
                )),
            }
            match ts.last() {
                Some(Transform::Select(cids)) => {
                    if cids.len() != rel.columns.len() {
                        self.viol.push(format!(
                            "select_arity: {place} final select has {} ids, relation declares {} columns",
                            cids.len(),
                            rel.columns.len()
                        ));
                    }
                }
                other => self.viol.push(format!(
                    "pipeline_no_select: {place} ends with {}",
                    other.map(|t| t.as_ref().to_string()).unwrap_or("nothing".into())
                )),
            }
        }
    }
}

pub fn check(rq: &RelationalQuery) -> Value {
    let mut ck = Ck {
        viol: vec![],
        defined_global: HashMap::new(),
        kinds: BTreeMap::new(),
        n_pipelines: 0,
        max_pipeline_len: 0,
        instances: BTreeMap::new(),
    };
    let mut declared: HashSet<usize> = HashSet::new();
    for (i, t) in rq.tables.iter().enumerate() {
        let place = format!("tables[{i}](table-{})", t.id.get());
        ck.relation(&t.relation, &declared, &place);
        if !declared.insert(t.id.get()) {
            ck.viol.push(format!("tid_declared_twice: table-{}", t.id.get()));
        }
    }
    ck.relation(&rq.relation, &declared, "main");
    let multi = ck.instances.values().filter(|&&n| n > 1).count();
    let frame: Vec<Value> = rq
        .relation
        .columns
        .iter()
        .map(|c| match c {
            RelationColumn::Single(Some(n)) => json!(n),
            RelationColumn::Single(None) => Value::Null,
            RelationColumn::Wildcard => json!({"wildcard": true}),
        })
        .collect();
    json!({
        "frame": frame,
        "violations": ck.viol,
        "tables": rq.tables.len(),
        "pipelines": ck.n_pipelines,
        "max_pipeline_len": ck.max_pipeline_len,
        "kinds": ck.kinds,
        "multi_instance_tables": multi,
        "cids": ck.defined_global.len(),
    })
}
