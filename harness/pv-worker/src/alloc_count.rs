//! Counting allocator: deterministic logical cost (allocation count / bytes).
use std::alloc::{GlobalAlloc, Layout, System};
use std::sync::atomic::{AtomicU64, Ordering};

pub struct Counting;

static ALLOCS: AtomicU64 = AtomicU64::new(0);
static BYTES: AtomicU64 = AtomicU64::new(0);

unsafe impl GlobalAlloc for Counting {
    unsafe fn alloc(&self, layout: Layout) -> *mut u8 {
        ALLOCS.fetch_add(1, Ordering::Relaxed);
        BYTES.fetch_add(layout.size() as u64, Ordering::Relaxed);
        System.alloc(layout)
    }
    unsafe fn dealloc(&self, ptr: *mut u8, layout: Layout) {
        System.dealloc(ptr, layout)
    }
    unsafe fn realloc(&self, ptr: *mut u8, layout: Layout, new_size: usize) -> *mut u8 {
        ALLOCS.fetch_add(1, Ordering::Relaxed);
        BYTES.fetch_add(new_size as u64, Ordering::Relaxed);
        System.realloc(ptr, layout, new_size)
    }
}

pub fn snapshot() -> (u64, u64) {
    (ALLOCS.load(Ordering::Relaxed), BYTES.load(Ordering::Relaxed))
}
