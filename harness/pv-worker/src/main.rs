//! pv-worker: long-lived JSON-lines server that links the real `prqlc` from
//! /repo's working tree, a pinned SQLite (rusqlite, bundled) and sqlparser.
//! One request per line on stdin, one response per line on stdout.
//!
//! All instrumentation lives here, not in /repo: panic hook + catch_unwind,
//! counting global allocator, thread CPU time.

mod alloc_count;
mod c17;
mod rqcheck;
mod sqlbind;

use std::collections::HashMap;
use std::io::{BufRead, Write};
use std::panic::{catch_unwind, AssertUnwindSafe};
use std::path::PathBuf;
use std::str::FromStr;

use prqlc::{DisplayOptions, ErrorMessages, Options, SourceTree, Target};
use serde_json::{json, Value};

#[global_allocator]
static GLOBAL: alloc_count::Counting = alloc_count::Counting;

// per-thread: the hook runs on the panicking thread, so concurrent compiles (C11 stress) do not mix up their reports
thread_local! {
    static LAST_PANIC: std::cell::RefCell<Option<(String, String)>> = const { std::cell::RefCell::new(None) };
}

fn install_panic_hook() {
    std::panic::set_hook(Box::new(|info| {
        let loc = info
            .location()
            .map(|l| format!("{}:{}", l.file(), l.line()))
            .unwrap_or_else(|| "?".into());
        let msg = if let Some(s) = info.payload().downcast_ref::<&str>() {
            s.to_string()
        } else if let Some(s) = info.payload().downcast_ref::<String>() {
            s.clone()
        } else {
            "<non-string payload>".to_string()
        };
        LAST_PANIC.with(|p| *p.borrow_mut() = Some((loc, msg)));
    }));
}

fn take_panic() -> Value {
    let p = LAST_PANIC.with(|p| p.borrow_mut().take());
    match p {
        Some((loc, msg)) => json!({"loc": loc, "msg": msg}),
        None => json!({"loc": "?", "msg": "?"}),
    }
}

fn thread_cpu_ns() -> u64 {
    unsafe {
        let mut ts = libc::timespec {
            tv_sec: 0,
            tv_nsec: 0,
        };
        libc::clock_gettime(libc::CLOCK_THREAD_CPUTIME_ID, &mut ts);
        ts.tv_sec as u64 * 1_000_000_000 + ts.tv_nsec as u64
    }
}

/// Run `f` guarded: returns Ok(v) or Err(panic json). Records alloc/cpu cost.
fn guarded<T>(f: impl FnOnce() -> T) -> (Result<T, Value>, Value) {
    let a0 = alloc_count::snapshot();
    let c0 = thread_cpu_ns();
    let r = catch_unwind(AssertUnwindSafe(f));
    let c1 = thread_cpu_ns();
    let a1 = alloc_count::snapshot();
    let cost = json!({"allocs": a1.0 - a0.0, "bytes": a1.1 - a0.1, "cpu_ns": c1 - c0});
    match r {
        Ok(v) => (Ok(v), cost),
        Err(_) => (Err(take_panic()), cost),
    }
}

pub fn parse_options(req: &Value) -> Result<Options, String> {
    let mut o = Options::default()
        .with_format(req.get("format").and_then(|v| v.as_bool()).unwrap_or(false))
        .with_signature_comment(
            req.get("signature")
                .and_then(|v| v.as_bool())
                .unwrap_or(false),
        );
    match req.get("display").and_then(|v| v.as_str()) {
        Some("ansi") => o = o.with_display(DisplayOptions::AnsiColor),
        _ => o = o.with_display(DisplayOptions::Plain),
    }
    if let Some(t) = req.get("target").and_then(|v| v.as_str()) {
        match Target::from_str(t) {
            Ok(t) => o = o.with_target(t),
            Err(e) => return Err(format!("{:?}", e.reason.to_string())),
        }
    }
    Ok(o)
}

pub fn errs_json(e: &ErrorMessages) -> Value {
    serde_json::to_value(e)
        .map(|v| v.get("inner").cloned().unwrap_or(Value::Null))
        .unwrap_or(Value::Null)
}

fn source_tree(req: &Value) -> SourceTree {
    // sources: [[path, content], ...] in insertion order; root optional
    let mut items: Vec<(PathBuf, String)> = vec![];
    if let Some(arr) = req.get("sources").and_then(|v| v.as_array()) {
        for it in arr {
            let p = it.get(0).and_then(|v| v.as_str()).unwrap_or("");
            let c = it.get(1).and_then(|v| v.as_str()).unwrap_or("");
            items.push((PathBuf::from(p), c.to_string()));
        }
    }
    let root = req
        .get("root")
        .and_then(|v| v.as_str())
        .map(PathBuf::from);
    SourceTree::new(items, root)
}

struct State {
    dbs: HashMap<String, rusqlite::Connection>,
}

fn sqlite_value(v: rusqlite::types::ValueRef<'_>) -> Value {
    use rusqlite::types::ValueRef::*;
    match v {
        Null => Value::Null,
        Integer(i) => json!(i),
        Real(f) => {
            if f.is_finite() {
                json!(f)
            } else {
                json!({"f": format!("{f:?}")})
            }
        }
        Text(t) => match std::str::from_utf8(t) {
            Ok(s) => json!(s),
            Err(_) => json!({"b": hex(t)}),
        },
        Blob(b) => json!({"b": hex(b)}),
    }
}

fn hex(b: &[u8]) -> String {
    b.iter().map(|x| format!("{x:02x}")).collect()
}

fn db_exec(conn: &rusqlite::Connection, sql: &str, max_rows: usize, prepare_only: bool) -> Value {
    let mut stmt = match conn.prepare(sql) {
        Ok(s) => s,
        Err(e) => return json!({"sqlite_error": e.to_string(), "phase": "prepare"}),
    };
    let cols: Vec<String> = stmt.column_names().iter().map(|s| s.to_string()).collect();
    if prepare_only {
        return json!({"cols": cols});
    }
    let n = cols.len();
    let mut rows_out: Vec<Value> = vec![];
    let mut rows = match stmt.query([]) {
        Ok(r) => r,
        Err(e) => return json!({"sqlite_error": e.to_string(), "phase": "query"}),
    };
    loop {
        match rows.next() {
            Ok(Some(row)) => {
                let mut r = Vec::with_capacity(n);
                for i in 0..n {
                    r.push(match row.get_ref(i) {
                        Ok(v) => sqlite_value(v),
                        Err(e) => json!({"e": e.to_string()}),
                    });
                }
                rows_out.push(Value::Array(r));
                if rows_out.len() > max_rows {
                    return json!({"sqlite_error": "too many rows", "phase": "limit"});
                }
            }
            Ok(None) => break,
            Err(e) => return json!({"sqlite_error": e.to_string(), "phase": "step"}),
        }
    }
    json!({"cols": cols, "rows": rows_out})
}

fn op_compile(req: &Value, st: &mut State) -> Value {
    let src = req.get("src").and_then(|v| v.as_str()).unwrap_or("");
    let opts = match parse_options(req) {
        Ok(o) => o,
        Err(e) => return json!({"bad_target": e}),
    };
    let want_rq = req.get("rq").and_then(|v| v.as_bool()).unwrap_or(false);
    let want_rq_json = req.get("rq_json").and_then(|v| v.as_bool()).unwrap_or(false);
    let mut out = serde_json::Map::new();

    let (r, cost) = guarded(|| prqlc::compile(src, &opts));
    out.insert("cost".into(), cost);
    let mut sql: Option<String> = None;
    match r {
        Ok(Ok(s)) => {
            out.insert("sql".into(), json!(s));
            sql = Some(s);
        }
        Ok(Err(e)) => {
            out.insert("errors".into(), errs_json(&e));
        }
        Err(p) => {
            out.insert("panic".into(), p);
        }
    }
    if want_rq {
        let (r, _) = guarded(|| prqlc::prql_to_pl(src).and_then(prqlc::pl_to_rq));
        match r {
            Ok(Ok(rq)) => {
                let rep = rqcheck::check(&rq);
                out.insert("rqcheck".into(), rep);
                if want_rq_json {
                    out.insert(
                        "rq_json".into(),
                        serde_json::to_value(&rq).unwrap_or(Value::Null),
                    );
                }
            }
            Ok(Err(e)) => {
                out.insert("rq_errors".into(), errs_json(&e));
            }
            Err(p) => {
                out.insert("rq_panic".into(), p);
            }
        }
    }
    if let (Some(sql), true) = (&sql, req.get("fmtdiff").and_then(|v| v.as_bool()).unwrap_or(false)) {
        out.insert("fmtdiff".into(), fmtdiff(src, req, sql));
    }
    if let (Some(sql), Some(db)) = (&sql, req.get("db").and_then(|v| v.as_str())) {
        if let Some(conn) = st.dbs.get(db) {
            let prepare_only = req
                .get("prepare_only")
                .and_then(|v| v.as_bool())
                .unwrap_or(false);
            out.insert("exec".into(), db_exec(conn, sql, 100_000, prepare_only));
        } else {
            out.insert("exec".into(), json!({"sqlite_error": "no such db handle"}));
        }
    }
    Value::Object(out)
}

/// Format-differential monitor: compile the same source with the `format` option flipped and compare the two
/// texts token by token (dialect tokenizer, blanks and line breaks dropped). The formatter may only change layout.
fn fmtdiff(src: &str, req: &Value, sql: &str) -> Value {
    use sqlparser::tokenizer::{Token, Tokenizer};
    let mut req2 = req.clone();
    let was = req.get("format").and_then(|v| v.as_bool()).unwrap_or(false);
    req2["format"] = json!(!was);
    let opts = match parse_options(&req2) {
        Ok(o) => o,
        Err(_) => return json!({"status": "bad_target"}),
    };
    let (r, _) = guarded(|| prqlc::compile(src, &opts));
    let other = match r {
        Ok(Ok(s)) => s,
        Ok(Err(e)) => return json!({"status": "other_rejected", "errors": errs_json(&e)}),
        Err(p) => return json!({"status": "other_panic", "panic": p}),
    };
    let d = req
        .get("target")
        .and_then(|v| v.as_str())
        .and_then(|t| t.strip_prefix("sql."))
        .unwrap_or("generic");
    let Some(dialect) = dialect_of(d) else {
        return json!({"status": "no_tokenizer"});
    };
    let toks = |text: &str| -> Option<Vec<Token>> {
        let (r, _) = guarded(|| Tokenizer::new(&*dialect, text).tokenize());
        match r {
            Ok(Ok(v)) => Some(
                v.into_iter()
                    .filter(|t| {
                        // blanks, line breaks and comments (whose inner layout a formatter may change)
                        !matches!(t, Token::Whitespace(_))
                    })
                    .collect(),
            ),
            _ => None,
        }
    };
    let (Some(a), Some(b)) = (toks(sql), toks(&other)) else {
        // same text either way means the tokenizer simply cannot read this dialect construct
        let squeeze = |t: &str| t.split_whitespace().collect::<Vec<_>>().join(" ");
        return json!({"status": "untokenizable", "same_modulo_blanks": squeeze(sql) == squeeze(&other)});
    };
    if a == b {
        return json!({"status": "equal", "tokens": a.len(), "formatted_len": if was { sql.len() } else { other.len() }});
    }
    let i = a.iter().zip(b.iter()).position(|(x, y)| x != y).unwrap_or(a.len().min(b.len()));
    let show = |v: &Vec<Token>| v.get(i).map(|t| format!("{:?}", t)).unwrap_or_else(|| "<end>".into());
    let is_str = |v: &Vec<Token>| {
        matches!(
            v.get(i),
            Some(
                Token::SingleQuotedString(_)
                    | Token::DoubleQuotedString(_)
                    | Token::NationalStringLiteral(_)
                    | Token::EscapedStringLiteral(_)
                    | Token::TripleSingleQuotedString(_)
                    | Token::TripleDoubleQuotedString(_)
                    | Token::DollarQuotedString(_)
                    | Token::Number(_, _)
            )
        )
    };
    json!({"status": "differs", "at": i, "this": show(&a), "other": show(&b), "literal": is_str(&a) || is_str(&b),
           "other_sql": other})
}

fn op_tree_compile(req: &Value) -> Value {
    let tree = source_tree(req);
    let opts = match parse_options(req) {
        Ok(o) => o,
        Err(e) => return json!({"bad_target": e}),
    };
    let main_path: Vec<String> = req
        .get("main_path")
        .and_then(|v| v.as_array())
        .map(|a| {
            a.iter()
                .filter_map(|x| x.as_str().map(|s| s.to_string()))
                .collect()
        })
        .unwrap_or_default();
    let (r, cost) = guarded(|| {
        let pl = prqlc::prql_to_pl_tree(&tree)?;
        let rq = prqlc::pl_to_rq_tree(pl, &main_path, &[])
            .map_err(|e| e.composed(&tree))?;
        let rq_json = prqlc::json::from_rq(&rq)?;
        let sql = prqlc::rq_to_sql(rq, &opts).map_err(|e| e.composed(&tree))?;
        Ok::<_, ErrorMessages>((rq_json, sql))
    });
    match r {
        Ok(Ok((rq_json, sql))) => json!({"sql": sql, "rq_json": rq_json, "cost": cost}),
        Ok(Err(e)) => json!({"errors": errs_json(&e), "cost": cost}),
        Err(p) => json!({"panic": p, "cost": cost}),
    }
}

fn tree_strip(v: &mut Value) {
    match v {
        Value::Object(m) => {
            m.remove("span");
            m.remove("doc_comment");
            for (_, x) in m.iter_mut() {
                tree_strip(x);
            }
        }
        Value::Array(a) => {
            for x in a.iter_mut() {
                tree_strip(x);
            }
        }
        _ => {}
    }
}

fn short(v: &Value) -> String {
    let s = v.to_string();
    if s.len() > 160 { format!("{}…", s.chars().take(160).collect::<String>()) } else { s }
}

fn first_diff(a: &Value, b: &Value, path: String) -> Option<(String, String, String)> {
    if a == b {
        return None;
    }
    match (a, b) {
        (Value::Object(x), Value::Object(y)) => {
            let kx: Vec<&String> = x.keys().collect();
            let ky: Vec<&String> = y.keys().collect();
            if kx != ky {
                return Some((path, format!("keys {:?}", kx), format!("keys {:?}", ky)));
            }
            for (k, v) in x {
                if let Some(d) = first_diff(v, &y[k], format!("{path}.{k}")) {
                    return Some(d);
                }
            }
            None
        }
        (Value::Array(x), Value::Array(y)) => {
            if x.len() != y.len() {
                return Some((path, format!("len {} {}", x.len(), short(a)), format!("len {} {}", y.len(), short(b))));
            }
            for (i, (v, w)) in x.iter().zip(y.iter()).enumerate() {
                if let Some(d) = first_diff(v, w, format!("{path}[{i}]")) {
                    return Some(d);
                }
            }
            None
        }
        _ => Some((path, short(a), short(b))),
    }
}

/// C14: format, reparse, compare trees, format again, compile both.
fn op_fmt(req: &Value) -> Value {
    let src = req.get("src").and_then(|v| v.as_str()).unwrap_or("");
    let opts = parse_options(req).unwrap_or_default();
    let do_compile = req.get("compile").and_then(|v| v.as_bool()).unwrap_or(true);
    let mut out = serde_json::Map::new();
    let (r, _) = guarded(|| prqlc::prql_to_pl(src));
    let pl = match r {
        Ok(Ok(pl)) => pl,
        Ok(Err(e)) => return json!({"parse_errors": errs_json(&e)}),
        Err(p) => return json!({"panic": p, "stage": "prql_to_pl"}),
    };
    let mut t1 = serde_json::to_value(&pl).unwrap_or(Value::Null);
    tree_strip(&mut t1);
    let (r, cost) = guarded(|| prqlc::pl_to_prql(&pl));
    out.insert("cost".into(), cost);
    let f1 = match r {
        Ok(Ok(s)) => s,
        Ok(Err(e)) => return json!({"fmt_errors": errs_json(&e)}),
        Err(p) => return json!({"panic": p, "stage": "pl_to_prql"}),
    };
    out.insert("fmt".into(), json!(f1));
    let (r, _) = guarded(|| prqlc::prql_to_pl(&f1));
    match r {
        Ok(Ok(pl2)) => {
            let mut t2 = serde_json::to_value(&pl2).unwrap_or(Value::Null);
            tree_strip(&mut t2);
            let eq = t1 == t2;
            out.insert("tree_equal".into(), json!(eq));
            if !eq {
                if let Some((path, a, b)) = first_diff(&t1, &t2, String::new()) {
                    out.insert("diff".into(), json!({"path": path, "a": a, "b": b}));
                }
            }
            if !eq && req.get("trees").and_then(|v| v.as_bool()).unwrap_or(false) {
                out.insert("tree1".into(), t1.clone());
                out.insert("tree2".into(), t2);
            }
            let (r, _) = guarded(|| prqlc::pl_to_prql(&pl2));
            match r {
                Ok(Ok(f2)) => {
                    out.insert("idempotent".into(), json!(f2 == f1));
                    if f2 != f1 {
                        out.insert("fmt2".into(), json!(f2));
                    }
                }
                Ok(Err(e)) => {
                    out.insert("fmt2_errors".into(), errs_json(&e));
                }
                Err(p) => {
                    out.insert("panic".into(), p);
                    out.insert("stage".into(), json!("pl_to_prql#2"));
                }
            }
        }
        Ok(Err(e)) => {
            out.insert("reparse_errors".into(), errs_json(&e));
        }
        Err(p) => {
            out.insert("panic".into(), p);
            out.insert("stage".into(), json!("prql_to_pl(fmt)"));
        }
    }
    if do_compile {
        let c = |s: &str| -> Value {
            let (r, _) = guarded(|| prqlc::compile(s, &opts));
            match r {
                Ok(Ok(sql)) => json!({"sql": sql}),
                Ok(Err(e)) => {
                    let reasons: Vec<String> = e.inner.iter().map(|m| m.reason.clone()).collect();
                    json!({"errors": reasons})
                }
                Err(p) => json!({"panic": p}),
            }
        };
        out.insert("compile_src".into(), c(src));
        out.insert("compile_fmt".into(), c(&f1));
    }
    Value::Object(out)
}

fn err_key(e: &ErrorMessages) -> Value {
    // what C15 compares for the error path: kind, code, reason, hints, span
    Value::Array(
        e.inner
            .iter()
            .map(|m| {
                json!({"kind": format!("{:?}", m.kind), "code": m.code, "reason": m.reason,
                       "hints": m.hints, "span": m.span.map(|s| format!("{s:?}"))})
            })
            .collect(),
    )
}

/// C15: staged chain through JSON vs one-shot compile.
fn op_staged(req: &Value) -> Value {
    let src = req.get("src").and_then(|v| v.as_str()).unwrap_or("");
    let opts = match parse_options(req) {
        Ok(o) => o,
        Err(e) => return json!({"bad_target": e}),
    };
    let mut out = serde_json::Map::new();
    let mut issues: Vec<Value> = vec![];

    let (direct, _) = guarded(|| prqlc::compile(src, &opts));
    let direct_v = match &direct {
        Ok(Ok(s)) => json!({"sql": s}),
        Ok(Err(e)) => json!({"errors": err_key(e)}),
        Err(p) => json!({"panic": p}),
    };
    out.insert("direct".into(), direct_v.clone());

    let (staged, _) = guarded(|| -> Result<(String, Value), (String, ErrorMessages)> {
        let mut obs = serde_json::Map::new();
        let pl = prqlc::prql_to_pl(src).map_err(|e| ("prql_to_pl".to_string(), e))?;
        let j1 = prqlc::json::from_pl(&pl).map_err(|e| ("from_pl".to_string(), e))?;
        let pl2 = prqlc::json::to_pl(&j1).map_err(|e| ("to_pl".to_string(), e))?;
        obs.insert("pl_value_equal".into(), json!(pl2 == pl));
        let j1b = prqlc::json::from_pl(&pl2).map_err(|e| ("from_pl#2".to_string(), e))?;
        obs.insert("pl_json_equal".into(), json!(j1b == j1));
        obs.insert("pl_json_len".into(), json!(j1.len()));
        let rq = prqlc::pl_to_rq(pl2).map_err(|e| ("pl_to_rq".to_string(), e))?;
        let j2 = prqlc::json::from_rq(&rq).map_err(|e| ("from_rq".to_string(), e))?;
        let rq2 = prqlc::json::to_rq(&j2).map_err(|e| ("to_rq".to_string(), e))?;
        obs.insert("rq_value_equal".into(), json!(rq2 == rq));
        let j2b = prqlc::json::from_rq(&rq2).map_err(|e| ("from_rq#2".to_string(), e))?;
        obs.insert("rq_json_equal".into(), json!(j2b == j2));
        obs.insert("rq_json_len".into(), json!(j2.len()));
        if !(rq2 == rq) || j2b != j2 {
            obs.insert("rq_json".into(), json!(j2));
            obs.insert("rq_json2".into(), json!(j2b));
        }
        if !(pl2_eq_hint(&obs)) {
            obs.insert("pl_json".into(), json!(j1));
            obs.insert("pl_json2".into(), json!(j1b));
        }
        let sql = prqlc::rq_to_sql(rq2, &opts).map_err(|e| ("rq_to_sql".to_string(), e))?;
        Ok((sql, Value::Object(obs)))
    });
    match staged {
        Ok(Ok((sql, obs))) => {
            for k in ["pl_value_equal", "pl_json_equal", "rq_value_equal", "rq_json_equal"] {
                if obs.get(k) != Some(&json!(true)) {
                    issues.push(json!({"kind": k}));
                }
            }
            out.insert("obs".into(), obs);
            out.insert("staged".into(), json!({"sql": sql}));
            match &direct {
                Ok(Ok(s)) if *s == sql => {}
                _ => issues.push(json!({"kind": "output_differs"})),
            }
        }
        Ok(Err((stage, e))) => {
            let ek = err_key(&e);
            out.insert("staged".into(), json!({"errors": ek, "stage": stage}));
            match &direct {
                Ok(Err(de)) => {
                    // staged errors are not composed (no display/location); compare the rest
                    if err_key(de) != ek {
                        issues.push(json!({"kind": "error_differs"}));
                    }
                }
                _ => issues.push(json!({"kind": "output_differs"})),
            }
        }
        Err(p) => {
            out.insert("staged".into(), json!({"panic": p}));
            if direct.is_ok() {
                issues.push(json!({"kind": "staged_panic"}));
            }
        }
    }
    out.insert("issues".into(), Value::Array(issues));
    Value::Object(out)
}

fn pl2_eq_hint(obs: &serde_json::Map<String, Value>) -> bool {
    obs.get("pl_value_equal") == Some(&json!(true)) && obs.get("pl_json_equal") == Some(&json!(true))
}

/// C12: individual entry points, each guarded.
fn op_entry(req: &Value) -> Value {
    let which = req.get("entry").and_then(|v| v.as_str()).unwrap_or("");
    let src = req.get("src").and_then(|v| v.as_str()).unwrap_or("");
    let opts = parse_options(req).unwrap_or_default();
    let res = |r: Result<Result<String, ErrorMessages>, Value>, cost: Value| -> Value {
        match r {
            Ok(Ok(s)) => json!({"ok": true, "out_len": s.len(), "cost": cost}),
            Ok(Err(e)) => {
                let empty = e.inner.is_empty() || e.inner.iter().any(|m| m.reason.is_empty());
                json!({"ok": false, "n_errors": e.inner.len(), "empty_reason": empty,
                       "first": e.inner.first().map(|m| m.reason.clone()), "cost": cost})
            }
            Err(p) => json!({"panic": p, "cost": cost}),
        }
    };
    match which {
        "tokens" => {
            let (r, c) = guarded(|| prqlc::prql_to_tokens(src).map(|t| format!("{}", t.0.len())));
            res(r, c)
        }
        "pl" => {
            let (r, c) = guarded(|| prqlc::prql_to_pl(src).and_then(|pl| prqlc::json::from_pl(&pl)));
            res(r, c)
        }
        "fmt" => {
            let (r, c) = guarded(|| prqlc::prql_to_pl(src).and_then(|pl| prqlc::pl_to_prql(&pl)));
            res(r, c)
        }
        "rq" => {
            let (r, c) = guarded(|| {
                prqlc::prql_to_pl(src)
                    .and_then(prqlc::pl_to_rq)
                    .and_then(|rq| prqlc::json::from_rq(&rq))
            });
            res(r, c)
        }
        "compile" => {
            let (r, c) = guarded(|| prqlc::compile(src, &opts));
            res(r, c)
        }
        "json_pl" => {
            // src is a JSON PL document
            let (r, c) = guarded(|| {
                prqlc::json::to_pl(src)
                    .and_then(prqlc::pl_to_rq)
                    .and_then(|rq| prqlc::rq_to_sql(rq, &opts))
            });
            res(r, c)
        }
        "json_pl_fmt" => {
            let (r, c) = guarded(|| prqlc::json::to_pl(src).and_then(|pl| prqlc::pl_to_prql(&pl)));
            res(r, c)
        }
        "json_rq" => {
            let (r, c) = guarded(|| prqlc::json::to_rq(src).and_then(|rq| prqlc::rq_to_sql(rq, &opts)));
            res(r, c)
        }
        _ => json!({"error": "unknown entry"}),
    }
}

/// produce JSON documents (PL and RQ) for a source, for the C12 JSON mutators
fn op_docs(req: &Value) -> Value {
    let src = req.get("src").and_then(|v| v.as_str()).unwrap_or("");
    let (r, _) = guarded(|| {
        let pl = prqlc::prql_to_pl(src)?;
        let j1 = prqlc::json::from_pl(&pl)?;
        let rq = prqlc::pl_to_rq(pl)?;
        let j2 = prqlc::json::from_rq(&rq)?;
        Ok::<_, ErrorMessages>((j1, j2))
    });
    match r {
        Ok(Ok((a, b))) => json!({"pl": a, "rq": b}),
        Ok(Err(e)) => json!({"errors": errs_json(&e)}),
        Err(p) => json!({"panic": p}),
    }
}

fn dialect_of(name: &str) -> Option<Box<dyn sqlparser::dialect::Dialect>> {
    use sqlparser::dialect::*;
    Some(match name {
        "ansi" => Box::new(AnsiDialect {}),
        "bigquery" => Box::new(BigQueryDialect {}),
        "clickhouse" => Box::new(ClickHouseDialect {}),
        "duckdb" => Box::new(DuckDbDialect {}),
        "generic" => Box::new(GenericDialect {}),
        "glaredb" | "postgres" => Box::new(PostgreSqlDialect {}),
        "mssql" => Box::new(MsSqlDialect {}),
        "mysql" => Box::new(MySqlDialect {}),
        "snowflake" => Box::new(SnowflakeDialect {}),
        "sqlite" => Box::new(SQLiteDialect {}),
        "redshift" => Box::new(RedshiftSqlDialect {}),
        _ => return None,
    })
}

fn op_sqlparse(req: &Value) -> Value {
    let d = req.get("dialect").and_then(|v| v.as_str()).unwrap_or("generic");
    let sql = req.get("sql").and_then(|v| v.as_str()).unwrap_or("");
    let Some(dialect) = dialect_of(d) else {
        return json!({"error": "unknown dialect"});
    };
    let want_ast = req.get("ast").and_then(|v| v.as_bool()).unwrap_or(false);
    let want_bind = req.get("bind").and_then(|v| v.as_bool()).unwrap_or(false);
    let (r, _) = guarded(|| sqlparser::parser::Parser::parse_sql(&*dialect, sql));
    match r {
        Ok(Ok(stmts)) => {
            let is_query = stmts.len() == 1 && matches!(stmts[0], sqlparser::ast::Statement::Query(_));
            let mut out = json!({"ok": true, "n": stmts.len(), "is_query": is_query});
            if want_ast {
                out["ast"] = serde_json::to_value(&stmts).unwrap_or(Value::Null);
            }
            if want_bind && is_query {
                let schema = req.get("schema").cloned().unwrap_or(Value::Null);
                let (b, _) = guarded(|| sqlbind::bind(&stmts[0], &schema));
                out["bind"] = match b {
                    Ok(v) => v,
                    Err(p) => json!({"monitor_panic": p}),
                };
            }
            out
        }
        Ok(Err(e)) => json!({"ok": false, "parse_error": e.to_string()}),
        Err(p) => json!({"ok": false, "parser_panic": p}),
    }
}

fn op_tokens(req: &Value) -> Value {
    let src = req.get("src").and_then(|v| v.as_str()).unwrap_or("");
    let (r, _) = guarded(|| c17::check_one(src, true));
    match r {
        Ok(v) => v,
        Err(p) => json!({"panic": p}),
    }
}

fn outcome_string(src: &str, opts: &Options, with_rq: bool) -> String {
    let r = catch_unwind(AssertUnwindSafe(|| prqlc::compile(src, opts)));
    let mut out = match r {
        Ok(Ok(s)) => format!("OK:{s}"),
        Ok(Err(e)) => format!("ERR:{}", errs_json(&e)),
        Err(_) => {
            let p = take_panic();
            format!("PANIC:{}", p.get("loc").and_then(|v| v.as_str()).unwrap_or("?"))
        }
    };
    if with_rq {
        let r = catch_unwind(AssertUnwindSafe(|| {
            prqlc::prql_to_pl(src).and_then(prqlc::pl_to_rq).and_then(|rq| prqlc::json::from_rq(&rq))
        }));
        match r {
            Ok(Ok(j)) => out.push_str(&format!("\nRQ:{j}")),
            Ok(Err(_)) => out.push_str("\nRQ:err"),
            Err(_) => {
                take_panic();
                out.push_str("\nRQ:panic")
            }
        }
        let r = catch_unwind(AssertUnwindSafe(|| prqlc::prql_to_pl(src).and_then(|pl| prqlc::pl_to_prql(&pl))));
        match r {
            Ok(Ok(j)) => out.push_str(&format!("\nFMT:{j}")),
            Ok(Err(_)) => out.push_str("\nFMT:err"),
            Err(_) => {
                take_panic();
                out.push_str("\nFMT:panic")
            }
        }
    }
    out
}

/// C11: T threads compile the same program list from a barrier; returns, per program,
/// the distinct outcomes observed and how many calls overlapped in time.
fn op_stress(req: &Value) -> Value {
    use std::sync::{Arc, Barrier};
    use std::time::Instant;
    let srcs: Vec<String> = req
        .get("srcs")
        .and_then(|v| v.as_array())
        .map(|a| a.iter().filter_map(|x| x.as_str().map(|s| s.to_string())).collect())
        .unwrap_or_default();
    let threads = req.get("threads").and_then(|v| v.as_u64()).unwrap_or(4) as usize;
    let reps = req.get("reps").and_then(|v| v.as_u64()).unwrap_or(1) as usize;
    let with_rq = req.get("rq").and_then(|v| v.as_bool()).unwrap_or(false);
    let opts = match parse_options(req) {
        Ok(o) => o,
        Err(e) => return json!({"bad_target": e}),
    };
    let srcs = Arc::new(srcs);
    let barrier = Arc::new(Barrier::new(threads));
    let epoch = Instant::now();
    let mut handles = vec![];
    for t in 0..threads {
        let srcs = srcs.clone();
        let barrier = barrier.clone();
        let opts = opts.clone();
        handles.push(
            std::thread::Builder::new()
                .stack_size(16 << 20)
                .spawn(move || {
                    let mut out: Vec<(usize, String, u128, u128)> = vec![];
                    barrier.wait();
                    for rep in 0..reps {
                        for k in 0..srcs.len() {
                            // stagger the order per thread so different programs overlap
                            let i = (k + t * 7 + rep) % srcs.len();
                            let t0 = epoch.elapsed().as_nanos();
                            let o = outcome_string(&srcs[i], &opts, with_rq);
                            let t1 = epoch.elapsed().as_nanos();
                            out.push((i, o, t0, t1));
                        }
                    }
                    out
                })
                .unwrap(),
        );
    }
    let mut per: Vec<Vec<String>> = vec![vec![]; srcs.len()];
    let mut intervals: Vec<(u128, u128, usize)> = vec![];
    let mut calls = 0u64;
    for (t, h) in handles.into_iter().enumerate() {
        if let Ok(v) = h.join() {
            for (i, o, t0, t1) in v {
                calls += 1;
                if !per[i].contains(&o) {
                    per[i].push(o);
                }
                intervals.push((t0, t1, t));
            }
        }
    }
    // count overlapping call pairs on different threads (sweep)
    intervals.sort();
    let mut overlapping = 0u64;
    let mut active: Vec<(u128, usize)> = vec![];
    for (t0, t1, th) in intervals {
        active.retain(|(end, _)| *end > t0);
        overlapping += active.iter().filter(|(_, a)| *a != th).count() as u64;
        active.push((t1, th));
    }
    json!({
        "calls": calls,
        "overlapping_pairs": overlapping,
        "outcomes": per,
    })
}

fn handle(req: &Value, st: &mut State) -> Value {
    let op = req.get("op").and_then(|v| v.as_str()).unwrap_or("");
    match op {
        "ping" => json!({"pong": true, "sqlite": rusqlite::version(),
                         "prqlc": prqlc::compiler_version().to_string()}),
        "compile" => op_compile(req, st),
        "tree_compile" => op_tree_compile(req),
        "fmt" => op_fmt(req),
        "staged" => op_staged(req),
        "entry" => op_entry(req),
        "docs" => op_docs(req),
        "pl_json" => {
            let src = req.get("src").and_then(|v| v.as_str()).unwrap_or("");
            let (r, _) = guarded(|| prqlc::prql_to_pl(src).map(|pl| {
                let mut v = serde_json::to_value(&pl).unwrap_or(Value::Null);
                tree_strip(&mut v);
                v
            }));
            match r {
                Ok(Ok(v)) => json!({"pl": v}),
                Ok(Err(e)) => json!({"errors": errs_json(&e)}),
                Err(p) => json!({"panic": p}),
            }
        }
        "sqlparse" => op_sqlparse(req),
        "tokens" => op_tokens(req),
        "stress" => op_stress(req),
        "debuglog" => {
            // the compiler's own per-stage event log of one compilation (prqlc::debug)
            let src = req.get("src").and_then(|v| v.as_str()).unwrap_or("");
            let opts = parse_options(req).unwrap_or_default();
            prqlc::debug::log_start();
            let (r, _) = guarded(|| prqlc::compile(src, &opts));
            let log = prqlc::debug::log_finish();
            let logv = log.map(|l| serde_json::to_value(&l).unwrap_or(Value::Null)).unwrap_or(Value::Null);
            match r {
                Ok(Ok(s)) => json!({"sql": s, "log": logv}),
                Ok(Err(e)) => json!({"errors": errs_json(&e), "log": logv}),
                Err(p) => json!({"panic": p, "log": logv}),
            }
        }
        "outcome" => {
            let src = req.get("src").and_then(|v| v.as_str()).unwrap_or("");
            match parse_options(req) {
                Ok(o) => json!({"outcome": outcome_string(src, &o, req.get("rq").and_then(|v| v.as_bool()).unwrap_or(false))}),
                Err(e) => json!({"bad_target": e}),
            }
        }
        "c17_enum" => c17::enumerate(req),
        "c17_batch" => c17::batch(req),
        "db_open" => {
            let name = req.get("name").and_then(|v| v.as_str()).unwrap_or("").to_string();
            let conn = match rusqlite::Connection::open_in_memory() {
                Ok(c) => c,
                Err(e) => return json!({"sqlite_error": e.to_string()}),
            };
            if let Some(stmts) = req.get("stmts").and_then(|v| v.as_array()) {
                for s in stmts {
                    if let Some(s) = s.as_str() {
                        if let Err(e) = conn.execute_batch(s) {
                            return json!({"sqlite_error": e.to_string(), "stmt": s});
                        }
                    }
                }
            }
            st.dbs.insert(name, conn);
            json!({"ok": true})
        }
        "db_close" => {
            let name = req.get("name").and_then(|v| v.as_str()).unwrap_or("");
            st.dbs.remove(name);
            json!({"ok": true})
        }
        "db_close_all" => {
            st.dbs.clear();
            json!({"ok": true})
        }
        "db_exec" => {
            let name = req.get("name").and_then(|v| v.as_str()).unwrap_or("");
            let sql = req.get("sql").and_then(|v| v.as_str()).unwrap_or("");
            let prepare_only = req.get("prepare_only").and_then(|v| v.as_bool()).unwrap_or(false);
            match st.dbs.get(name) {
                Some(conn) => db_exec(conn, sql, 100_000, prepare_only),
                None => json!({"sqlite_error": "no such db handle"}),
            }
        }
        _ => json!({"error": format!("unknown op {op}")}),
    }
}

fn main() {
    install_panic_hook();
    // `PRQL_VERSION_OVERRIDE` is an environment input, not history; leave as given.
    let stdin = std::io::stdin();
    let stdout = std::io::stdout();
    let mut st = State { dbs: HashMap::new() };
    let mut line = String::new();
    loop {
        line.clear();
        match stdin.lock().read_line(&mut line) {
            Ok(0) => break,
            Ok(_) => {}
            Err(_) => break,
        }
        let req: Value = match serde_json::from_str(line.trim_end()) {
            Ok(v) => v,
            Err(e) => {
                let mut o = stdout.lock();
                let _ = writeln!(o, "{}", json!({"error": format!("bad request: {e}")}));
                let _ = o.flush();
                continue;
            }
        };
        let mut resp = handle(&req, &mut st);
        if let (Some(id), Some(obj)) = (req.get("id"), resp.as_object_mut()) {
            obj.insert("id".into(), id.clone());
        }
        let mut o = stdout.lock();
        let _ = writeln!(o, "{}", resp);
        let _ = o.flush();
    }
}
