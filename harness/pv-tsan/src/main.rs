//! Reads a JSON array of {"src": .., "target": ..} from the file given as argv[1]; for every
//! program releases `threads` threads through a barrier, each compiling that program (the first
//! program of a process therefore races on the first-call initialisation of prqlc's statics),
//! and compares every thread's outcome with the others. Prints one JSON summary line.
//! Under -Zsanitizer=thread a data race makes the process print a report and exit 66.
use std::sync::{Arc, Barrier};

fn outcome(src: &str, target: &str) -> String {
    let opts = prqlc::Options::default()
        .no_signature()
        .with_target(std::str::FromStr::from_str(target).unwrap_or(prqlc::Target::Sql(None)));
    match std::panic::catch_unwind(|| prqlc::compile(src, &opts)) {
        Ok(Ok(sql)) => format!("OK:{sql}"),
        Ok(Err(e)) => {
            let items: Vec<(String, Vec<String>, Option<String>)> =
                e.inner.iter().map(|m| (m.reason.clone(), m.hints.clone(), m.span.map(|s| format!("{s:?}")))).collect();
            format!("ERR:{}", serde_json::to_string(&items).unwrap_or_default())
        }
        Err(_) => "PANIC".to_string(),
    }
}

static mut RACY: u64 = 0;

/// Two threads increment an unsynchronised static: ThreadSanitizer must report it. Used by the
/// check to prove that the sanitizer is active in this build before trusting its silence.
fn selftest() {
    let hs: Vec<_> = (0..2)
        .map(|_| {
            std::thread::spawn(|| {
                for _ in 0..1000 {
                    unsafe {
                        let p = std::ptr::addr_of_mut!(RACY);
                        p.write_volatile(p.read_volatile() + 1);
                    }
                }
            })
        })
        .collect();
    for h in hs {
        let _ = h.join();
    }
    println!("{{\"selftest\": {}}}", unsafe { std::ptr::addr_of!(RACY).read_volatile() });
}

fn main() {
    let args: Vec<String> = std::env::args().collect();
    if args.get(1).map(|s| s.as_str()) == Some("--selftest") {
        selftest();
        return;
    }
    let text = std::fs::read_to_string(&args[1]).expect("input file");
    let threads: usize = args.get(2).and_then(|s| s.parse().ok()).unwrap_or(8);
    let progs: Vec<serde_json::Value> = serde_json::from_str(&text).expect("json");
    std::panic::set_hook(Box::new(|_| {}));
    let mut mismatches = vec![];
    let mut calls = 0usize;
    for (i, p) in progs.iter().enumerate() {
        let src = p["src"].as_str().unwrap_or("").to_string();
        let target = p["target"].as_str().unwrap_or("sql.generic").to_string();
        let barrier = Arc::new(Barrier::new(threads));
        let mut hs = vec![];
        for _ in 0..threads {
            let (b, s, t) = (barrier.clone(), src.clone(), target.clone());
            hs.push(std::thread::spawn(move || {
                b.wait();
                outcome(&s, &t)
            }));
        }
        let outs: Vec<String> = hs.into_iter().map(|h| h.join().unwrap_or_else(|_| "JOIN-PANIC".into())).collect();
        calls += outs.len();
        if outs.iter().any(|o| o != &outs[0]) {
            mismatches.push(i);
        }
    }
    println!("{}", serde_json::json!({"programs": progs.len(), "threads": threads, "calls": calls, "mismatches": mismatches}));
}
