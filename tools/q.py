#!/usr/bin/env python3
"""Ad-hoc probe: tools/q.py 'prql...' [target]  -> SQL + rows on a small fixed DB."""
import sys, os, json
sys.path.insert(0, os.path.dirname(os.path.dirname(os.path.abspath(__file__))))
from pv import core
w = core.Worker()
w.db_open("d", ["create table t1(id integer, k integer, a integer, b real, s text);"
                "insert into t1 values (1,1,10,0.5,'x'),(2,1,null,1.5,'y'),(3,2,30,null,null),(4,null,5,2.5,'x'),(5,2,30,1.0,'z');"
                "create table t2(id integer, k integer, a integer, c integer, s text);"
                "insert into t2 values (1,1,7,100,'x'),(3,2,8,200,'q'),(3,2,9,300,null),(9,null,1,400,'x');"
                "create table t3(k integer, d integer, e text); insert into t3 values (1,11,'p'),(2,22,'q'),(2,23,'r');"])
src = sys.argv[1]
tgt = sys.argv[2] if len(sys.argv) > 2 else "sql.sqlite"
r = w.call({"op": "compile", "src": src, "target": tgt, "db": "d", "rq": True})
if "sql" in r:
    print(r["sql"])
    e = r.get("exec", {})
    if "cols" in e:
        print(e["cols"])
        for row in e.get("rows", []): print(row)
    else: print(e)
else:
    for e in r.get("errors") or []: print("ERR:", e.get("reason"), e.get("hints"))
    if "panic" in r: print("PANIC", r["panic"])
print("FRAME:", r.get("rqcheck", {}).get("frame"))
if r.get("rqcheck", {}).get("violations"): print("RQ:", r["rqcheck"]["violations"])
