#!/usr/bin/env python3
"""Run checks against a seeded change: apply seeded/<id>/patch.diff to /repo, run the
given checks, undo the patch, and record what each check reported.

usage: tools/seedtest.py <seeded-id> [--tier quick|thorough] [--seed N] [CHECK ...]
(default checks: the property the change was seeded for)"""
import json, os, subprocess, sys, time

ROOT = os.path.dirname(os.path.dirname(os.path.abspath(__file__)))


def sh(cmd, **kw):
    return subprocess.run(cmd, shell=True, stdout=subprocess.PIPE, stderr=subprocess.STDOUT, text=True, **kw)


def main():
    args = sys.argv[1:]
    sid = args.pop(0)
    tier, seed = "quick", "1"
    checks = []
    while args:
        a = args.pop(0)
        if a == "--tier":
            tier = args.pop(0)
        elif a == "--seed":
            seed = args.pop(0)
        else:
            checks.append(a)
    d = os.path.join(ROOT, "seeded", sid)
    meta = json.load(open(os.path.join(d, "meta.json")))
    if not checks:
        checks = [meta["property"]]
    import fcntl
    lock = open("/tmp/pv_repo.lock", "w")
    fcntl.flock(lock, fcntl.LOCK_EX)        # background runs started with PV_LOCK_REPO=1 do not build while /repo is patched
    os.environ.pop("PV_LOCK_REPO", None)
    st = sh("git -C /repo status --porcelain")
    if st.stdout.strip():
        print("refusing: /repo is not clean:\n" + st.stdout)
        return 2
    r = sh("git -C /repo apply %s" % os.path.join(d, "patch.diff"))
    if r.returncode != 0:
        print("patch does not apply:\n" + r.stdout)
        return 2
    results = {}
    try:
        for c in checks:
            t0 = time.time()
            env = dict(os.environ, VERIF_SEED=seed)
            r = sh("cd %s && ./check %s --tier %s" % (ROOT, c, tier), env=env)
            lines = r.stdout.splitlines()
            viol = [l for l in lines if l.startswith("VIOLATION")]
            detail = [l for l in lines if l.startswith("  symptom=") or l.startswith("  detail=")]
            results[c] = {"exit": r.returncode, "violations": len(viol), "first": (viol[:3] + detail[:6]), "wall_s": round(time.time() - t0), "tier": tier, "seed": seed,
                          "last": lines[-1] if lines else ""}
            print("== %s on seeded %s: exit=%d violations=%d (%ds)" % (c, sid, r.returncode, len(viol), time.time() - t0))
            for l in detail[:8]:
                print("   " + l[:300])
            if r.returncode not in (0, 1):
                print("\n".join(lines[-15:]))
    finally:
        sh("git -C /repo checkout -- .")
        sh("cd %s/harness && cargo build --release --offline -q" % ROOT)     # worker back to the unchanged tree
        left = sh("git -C /repo status --porcelain").stdout.strip()
        if left:
            print("WARNING /repo not clean after revert:\n" + left)
    p = os.path.join(d, "result.json")
    old = json.load(open(p)) if os.path.exists(p) else {}
    for c, v in results.items():
        old["%s@%s" % (c, tier)] = v
    json.dump(old, open(p, "w"), indent=1, sort_keys=True)
    # evidence and replay files written while the patch was applied do not describe /repo
    sh("cd %s && git checkout -- evidence 2>/dev/null" % ROOT)
    return 0


if __name__ == "__main__":
    sys.exit(main())
