#!/opt/veriftools/pyvenv/bin/python
"""Validate MANIFEST.json and every evidence file against the given schemas."""
import json, jsonschema, glob, sys, os
os.chdir(os.path.dirname(os.path.dirname(os.path.abspath(__file__))))
jsonschema.validate(json.load(open('MANIFEST.json')), json.load(open('/root/.vp/MANIFEST.schema.json')))
es = json.load(open('/root/.vp/EVIDENCE.schema.json'))
bad = 0
for f in sorted(glob.glob('evidence/*.json')):
    try:
        jsonschema.validate(json.load(open(f)), es)
    except jsonschema.ValidationError as e:
        bad += 1; print("INVALID", f, str(e).split("\n")[0])
print("manifest ok; evidence files:", len(glob.glob('evidence/*.json')), "invalid:", bad)
sys.exit(1 if bad else 0)
