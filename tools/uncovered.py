#!/usr/bin/env python3
"""tools/uncovered.py <prop> <seed0> <seed1> [tier]: classes not covered by known_findings.txt, over several seeds."""
import sys, os, json, collections, importlib
sys.path.insert(0, os.path.dirname(os.path.dirname(os.path.abspath(__file__))))
from pv import core
prop = sys.argv[1]; s0, s1 = int(sys.argv[2]), int(sys.argv[3]); tier = sys.argv[4] if len(sys.argv) > 4 else "quick"
mod = importlib.import_module("pv.checks." + prop.lower())
core.build_worker(False)
groups = collections.OrderedDict()
tot = 0
for seed in range(s0, s1):
    run = mod.run(tier, seed)
    for v in run.violations:
        tot += 1
        vv = dict(v, property=prop)
        if any(f.matches(vv) for f in run.findings):
            continue
        k = (v["symptom"], v.get("shape", ""))
        groups.setdefault(k, []).append((seed, v))
print("total violations %d; uncovered classes %d" % (tot, len(groups)))
os.makedirs("/tmp/unc", exist_ok=True)
for i, ((sym, shape), vs) in enumerate(sorted(groups.items(), key=lambda kv: (kv[0][0], kv[0][1]))):
    w = next((v for _, v in vs if v.get("witness")), vs[0][1])
    path = "/tmp/unc/%s-%03d.json" % (prop, i)
    json.dump({"property": prop, "symptom": sym, "shape": shape, "detail": w.get("detail"), "case": w.get("witness")}, open(path, "w"), ensure_ascii=False)
    print("%3d x%-3d %s | %s" % (i, len(vs), sym, shape[:260]))
    if "-v" in sys.argv:
        print("      ", str(w.get("detail"))[:500])
