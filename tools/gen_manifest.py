#!/usr/bin/env python3
"""Regenerate MANIFEST.json from the table below (keeps it valid at all times)."""
import json, os
ROOT = os.path.dirname(os.path.dirname(os.path.abspath(__file__)))
ALL = ["C%02d" % i for i in range(1, 19)]
EXEC_NOTE = "Trusts the reference model (pv/ref/model.py; calibrated by triaging every disagreement with the real compiler at ~60 seeds and three thorough runs; the execution path is calibrated against the 27 upstream chinook result snapshots, the model itself is not - DESIGN.md 9.2), pinned SQLite 3.49.1 as the executing engine for sql.sqlite/sql.generic, and the unspecified-value discipline (undetermined outcomes are skipped and counted). Other dialects are not executed."
CHECKS = {
 "C01": dict(technique="runtime reference-model monitor: random relational-core programs x database instances compiled by the real compiler, executed on pinned SQLite, rows compared as bags with an independent interpreter; an enumerated distinct matrix (group KEYS (sort? | take n) x step between x final projection); plus the 27 upstream chinook integration queries against the result snapshots recorded upstream",
    text="Exploration: every judged execution's rows (values and multiplicities) equal the documented meaning of the pipeline; evidence lists split shapes, transform bigrams and SQL rewrites actually exercised.", note=EXEC_NOTE, design="DESIGN.md §3 C01 and §9"),
 "C02": dict(technique="runtime monitor over all operator nestings: printer (documented precedence) -> real parser tree equality, and emitted SQL value vs tree value on a NULL/negative/zero/int/float domain table",
    text="Exploration, exhaustive over the 578 (parent, child, side) operator triples and unary adjacencies, random deeper trees: held means parse trees and SQL values matched the documented operand tree on every judged row.", note=EXEC_NOTE, design="DESIGN.md §3 C02 and §9"),
 "C03": dict(technique="runtime reference-model monitor of row ORDER: executed row sequence must be a concatenation of the model's tie groups (partial order for the left rows of a right/full join); take positions; static ORDER BY presence",
    text="Exploration with a sort-centred workload: order established by sort survives select/derive/filter/take/left-join and CTE boundaries, takes select by position.", note=EXEC_NOTE, design="DESIGN.md §3 C03 and §9"),
 "C04": dict(technique="runtime reference-model monitor of window segments (partition x order x rows/range bounds) for every window-capable std function; row-count preservation; cross-dialect differential: the OVER clauses (partition size, order directions, frame) of every other dialect's statement must equal those of the executed sql.sqlite statement",
    text="Exploration over function x frame-kind x bounds x placement cells; values depending on tie order are not judged.", note=EXEC_NOTE, design="DESIGN.md §3 C04 and §9"),
 "C05": dict(technique="runtime monitor of result column lists (sqlite3_column_name) against the model's frame and the compiler's own RQ frame; leaked helper-column detection; for sql.duckdb / sql.snowflake / sql.bigquery (not executable here) a static frame monitor computes the result columns from the parsed statement over the schema (stars expanded, EXCLUDE / EXCEPT lists applied) incl. an enumerated several-stars x hidden-column matrix",
    text="Exploration with a projection-centred workload: count, order and names of result columns.", note=EXEC_NOTE + " Blind spot: for frames that contain a wildcard AND a join ([W] ... join), the listed finding KF-C05-5 covers count / name / order mismatches, so a new column-list defect confined to such frames would be attributed to it. Wildcard frames without a join are judged strictly except for trailing helper columns (KF-C05-2); fully known frames ([K]) are judged strictly. On the EXCLUDE dialects helper columns leaking in programs that contain a sort are attributed to KF-C05-11, lost exclusions in front of further transforms to KF-C05-10.", design="DESIGN.md §3 C05 and §9"),
 "C06": dict(technique="metamorphic runtime monitor: base vs rewritten program (let-prefix, user function in 4 calling styles, filter split/merge, frame identities, module path) executed on the same database, BOTH sides compared with the reference model (exactly one side deviating = violation); 40% boundary programs cut at every (prefix-end kind, suffix-start kind) pairing; plus 1 720 enumerated take-chain bases cut after each take",
    text="Exploration over (base, rewrite site, rewrite kind) pairs and compositions of two; evidence lists boundary kind pairs covered.", note=EXEC_NOTE, design="DESIGN.md §3 C06 and §9"),
 "C07": dict(technique="runtime monitors on emitted SQL for all 12 dialects: sqlparser's grammar for the dialect, an AST scope/binding monitor, and SQLite prepare (the real engine of sql.sqlite) for the sqlite/generic output of random relational programs and of ~750 schema-based feature programs (set operations incl. tops with compiler-added columns, let readers, a loop matrix, distinct, literals of every lexable form, boundary takes/frames); the scope monitor also reports a self-referencing CTE in a WITH list that is not RECURSIVE and an EXCLUDE list naming an unknown column",
    text="Exploration: every accepted program's statement is parsed per dialect, scope-checked and (sqlite/generic) prepared against the schema.", note="Trusts sqlparser 0.60 dialect grammars as stand-ins for the engines' parsers (they are permissive: only SQLite output is also checked by a real engine); the scope monitor reports only what it can decide. Blind spot: the listed finding KF-C07-2 covers scope errors in any pipeline containing a join.", design="DESIGN.md §3 C07 and §9"),
 "C08": dict(technique="runtime value round-trip monitor: hostile string values in every PRQL spelling x context x dialect; executed value on SQLite, literal decoded with the dialect's tokenizer, statement structure vs benign twin; numeric spellings",
    text="Exploration, exhaustive to length 2 (quick) / 3 (thorough) over a 12-symbol core alphabet all ordered pairs of special characters (digraphs), plus random hostile strings; plain spellings include raw CR/LF/tab.", note="The generator knows each value by construction from the documented escape table; sqlparser tokenizers stand in for the dialects.", design="DESIGN.md §3 C08 and §9"),
 "C09": dict(technique="runtime reference-model monitor under injective renaming of tables/aliases/columns to hostile identifiers (keywords, spaces, quotes, case, non-ASCII, the compiler's own generated patterns), database created with exactly those names",
    text="Exploration over (identifier class, position) cells; static quoting check for all dialects on a sample; a collision matrix of programs that force the compiler to invent relation names while user tables/lets are called table_0..2.", note=EXEC_NOTE, design="DESIGN.md §3 C09 and §9"),
 "C10": dict(technique="runtime negative monitor: well-scoped programs with one scope-breaking edit must return Err on each of 8 repetitions",
    text="Exploration over (edit kind, name pool, enclosing transform) cells.", note="Trusts the generator's notion of a fully known frame (after select/aggregate/group-aggregate).", design="DESIGN.md §3 C10 and §9"),
 "C11": dict(technique="runtime determinism monitor against a sequential model (first call of a fresh process): repeated calls with failing/panicking calls in between, fresh processes, 16 barrier-released threads incl. first-call races, permuted file insertion orders (incl. projects with syntax errors in several files), 400 many-names programs (every construct that carries a collection of names, written with 5-6 members); thorough tier adds a ThreadSanitizer build (-Zsanitizer=thread -Zbuild-std, self-tested) of the thread-stress program: 32 fresh processes x 8 threads over ~1500 programs, any race report is a violation; plus a Miri phase (cargo +nightly miri run, self-tested): two threads parse the same source under the interpreter's data-race detector",
    text="Exploration: byte equality of SQL, RQ JSON, formatted text and full error (reason, hints, span, code, display) across histories, processes, schedules and file orders.", note="Hash seeds and schedules are sampled, not enumerated (K repetitions per program).", design="DESIGN.md §3 C11 and §9"),
 "C12": dict(technique="runtime crash monitor: panic hook + catch_unwind, process exit status, deterministic allocation-count growth; corpus/random/mutant sources, size-doubling families to n=4096, mutated PL/RQ JSON, 707 well-formed-but-unusual feature programs x all entry points x 12 dialects x option combinations, hostile identifiers in every identifier position, the G-mistake phase (10k / 115k well-formed programs wrong in type, arity or place), C07's schema feature programs; thorough tier adds a Miri phase (self-tested): lex -> parse -> format -> re-parse of 192 short sources under the interpreter, any undefined-behaviour report is a violation",
    text="Exploration of every public entry point for panics, aborts (stack exhaustion) and super-polynomial logical cost.", note="debug-assertions and overflow-checks on; 8 MiB stack; sizes above 4096 unexplored; wall clock only as inconclusive watchdog. Blind spot: KF-C12-9 covers any resolver/lowering/formatter panic reached by MALFORMED input (mutants, token soup, mutated JSON); panics on well-formed input (corpus, generated, feature programs) are always reported.", design="DESIGN.md §3 C12 and §9"),
 "C13": dict(technique="runtime monitor of error locations: injected lexical/syntactic/resolution/type/SQL-stage errors with ASCII and multi-byte prefixes, single- and multi-file, spans within one line and across lines, errors inside interpolations of strings with escapes; span bounds, char boundaries, independently computed line/column, quoted line, offending token",
    text="Exploration over (error class, prefix class, layout) cells.", note="A span is accepted if one unit (characters or bytes) makes all clauses true; sources with multi-byte text before the error fall under KF-C13-1 (byte offsets), ASCII sources are judged strictly.", design="DESIGN.md §3 C13 and §9"),
 "C14": dict(technique="runtime round-trip monitor of the formatter: parse -> format -> parse tree equality, idempotence, equal compile output",
    text="Exploration over feature programs, corpus, random programs and every operator nesting in minimal/full parentheses.", note="Tree equality ignores span and doc_comment keys.", design="DESIGN.md §3 C14 and §9"),
 "C15": dict(technique="runtime differential monitor: source -> PL -> JSON -> PL -> RQ -> JSON -> RQ -> SQL through the public json::* API vs one-shot compile (value equality, byte equality of re-serialised JSON, output/error equality)",
    text="Exploration over feature programs, corpus and random programs x dialects x options.", note="Equality is the types' own PartialEq; unstable-under-repetition cases are skipped (C11's business).", design="DESIGN.md §3 C15 and §9"),
 "C16": dict(technique="runtime invariant monitor (Rust, over the public ir::rq types) run on the RQ of every program that reaches RQ (definition before use, single definition, visibility narrowed by Aggregate, declaration order of tables, from/select framing); plus a feature phase (inline sub-pipelines nested 2-3 levels, functions over relations, scalar lets, loops, set operations, G-feat)",
    text="Exploration: unique column-id definitions, definition before use within a pipeline, tables declared before use, from/select framing and arity.", note="'visible' is read as defined earlier in the same pipeline; Loop bodies exempt from framing.", design="DESIGN.md §3 C16 and §9"),
 "C17": dict(
    technique="runtime monitor over the real lexer's output: exhaustive short strings + random token-fragment strings + corpus; oracle checks span bounds, char boundaries, order, gaps, and re-lex of every token slice; thorough tier re-runs the same monitor on 640 short hostile strings under Miri (self-tested), any undefined-behaviour report is a violation",
    text="Exploration: the monitor observes prql_to_tokens on every string up to a stated length over alphabets of lexically significant characters (exhaustive within that space), plus random fragment sequences and corpus prefixes. Held means no tiling/re-lex violation other than the listed known findings was observed on those executions.",
    note="Trusts the worker's monitor code (harness/pv-worker/src/c17.rs) and Rust's str::is_char_boundary; strings longer than the exhaustive bound are only sampled.",
    design="DESIGN.md §3 C17 and §9"),
 "C18": dict(
    technique="runtime differential monitor: every program compiled under the full (option x header) matrix of 12 dialects + absent + sql.any + unknown; outputs compared byte-for-byte against the per-dialect baseline; plus a main_path phase (the relation to compile named through main_path: header-only vs option-only for all dialects)",
    text="Exploration: for each header-free program the real compiler is run on all judged (option, header) cells; held means option-over-header-over-generic precedence, unknown-name rejection and target-independent resolver acceptance were observed on every cell of every program.",
    note="Prepending a `prql target:` header is assumed to be a pure addition for programs that parse both with and without it (others are skipped and counted). Signature comment off; errors compared on (reason, hints).",
    design="DESIGN.md §3 C18 and §9"),
}
CLAIMED = ["C%02d" % i for i in range(1, 19)]
PENDING_REASON = "check not yet built in this revision of /verif (planned, see DESIGN.md §3); not claimed until its monitor exists"

def main():
    checks = []
    for pid in ALL:
        if pid not in CLAIMED: continue
        c = CHECKS[pid]
        checks.append({
            "property_id": pid,
            "quick_cmd": "./check %s --tier quick" % pid,
            "thorough_cmd": "./check %s --tier thorough" % pid,
            "evidence_file": "evidence/%s.json" % pid,
            "replay_cmd_template": "./check %s --replay {path}" % pid,
            "engine": "pv-worker",
            "level_claimed": {"category": c.get("category", "exploration"), "text": c["text"], "design_ref": c["design"]},
            "level_note": c["note"],
            "technique": c["technique"],
        })
    man = {
        "version": 1,
        "setup_cmd": "./setup.sh",
        "hooks": {
            "guard": "prql_verif",
            "enable": "none needed: all instrumentation (panic hook, counting allocator, monitors) lives in /verif/harness/pv-worker, which links /repo's prqlc by path; the guard name is reserved and unused",
            "baseline_off_cmd": "cd /repo && cargo test --workspace --no-fail-fast --offline",
            "source_commits": [],
            "add_only": True,
        },
        "engines": [
            {"name": "pv-worker", "path": "harness/pv-worker", "serves_properties": sorted(CLAIMED),
             "kind_free_text": "Rust JSON-lines server linking the real prqlc from /repo's working tree + pinned SQLite (rusqlite bundled) + sqlparser; hosts panic/alloc/CPU instrumentation and the Rust-side monitors (rqcheck, c17, sqlbind)"},
            {"name": "pv", "path": "pv", "serves_properties": sorted(CLAIMED),
             "kind_free_text": "Python stdlib orchestrator: seeded workload generators, reference model, oracles, reducer, known-finding matcher, evidence writer"},
        ],
        "checks": checks,
        "not_applicable": [{"property_id": p, "reason": PENDING_REASON} for p in ALL if p not in CLAIMED],
        "notes": "Technique family: runtime monitoring. Exit 0 = held on what was observed, 1 = VIOLATION, 2 = inconclusive (never folded into the others). known_findings.txt lists genuine defects recorded rather than repaired.",
    }
    with open(os.path.join(ROOT, "MANIFEST.json"), "w") as f:
        json.dump(man, f, indent=1)
    print("MANIFEST.json: %d checks, %d not claimed" % (len(checks), len(man["not_applicable"])))
main()
