#!/usr/bin/env python3
"""Regenerate MANIFEST.json from the table below (keeps it valid at all times)."""
import json, os
ROOT = os.path.dirname(os.path.dirname(os.path.abspath(__file__)))
ALL = ["C%02d" % i for i in range(1, 19)]
CHECKS = {
 "C17": dict(
    technique="runtime monitor over the real lexer's output: exhaustive short strings + random token-fragment strings + corpus; oracle checks span bounds, char boundaries, order, gaps, and re-lex of every token slice",
    text="Exploration: the monitor observes prql_to_tokens on every string up to a stated length over alphabets of lexically significant characters (exhaustive within that space), plus random fragment sequences and corpus prefixes. Held means no tiling/re-lex violation other than the listed known findings was observed on those executions.",
    note="Trusts the worker's monitor code (harness/pv-worker/src/c17.rs) and Rust's str::is_char_boundary; strings longer than the exhaustive bound are only sampled.",
    design="§3 C17"),
 "C18": dict(
    technique="runtime differential monitor: every program compiled under the full (option x header) matrix of 12 dialects + absent + sql.any + unknown; outputs compared byte-for-byte against the per-dialect baseline",
    text="Exploration: for each header-free program the real compiler is run on all judged (option, header) cells; held means option-over-header-over-generic precedence, unknown-name rejection and target-independent resolver acceptance were observed on every cell of every program.",
    note="Prepending a `prql target:` header is assumed to be a pure addition for programs that parse both with and without it (others are skipped and counted). Signature comment off; errors compared on (reason, hints).",
    design="§3 C18"),
}
PENDING_REASON = "check not yet built in this revision of /verif (planned, see DESIGN.md §3); not claimed until its monitor exists"

def main():
    checks = []
    for pid in ALL:
        if pid not in CHECKS: continue
        c = CHECKS[pid]
        checks.append({
            "property_id": pid,
            "quick_cmd": "./check %s --tier quick" % pid,
            "thorough_cmd": "./check %s --tier thorough" % pid,
            "evidence_file": "evidence/%s.json" % pid,
            "replay_cmd_template": "./check %s --replay {path}" % pid,
            "engine": "pv-worker",
            "level_claimed": {"category": c.get("category", "exploration"), "text": c["text"], "design_ref": c["design"]},
            "level_note": c["note"],
            "technique": c["technique"],
        })
    man = {
        "version": 1,
        "setup_cmd": "./setup.sh",
        "hooks": {
            "guard": "prql_verif",
            "enable": "none needed: all instrumentation (panic hook, counting allocator, monitors) lives in /verif/harness/pv-worker, which links /repo's prqlc by path; the guard name is reserved and unused",
            "baseline_off_cmd": "cd /repo && cargo test --workspace --no-fail-fast --offline",
            "source_commits": [],
            "add_only": True,
        },
        "engines": [
            {"name": "pv-worker", "path": "harness/pv-worker", "serves_properties": sorted(CHECKS),
             "kind_free_text": "Rust JSON-lines server linking the real prqlc from /repo's working tree + pinned SQLite (rusqlite bundled) + sqlparser; hosts panic/alloc/CPU instrumentation and the Rust-side monitors (rqcheck, c17, sqlbind)"},
            {"name": "pv", "path": "pv", "serves_properties": sorted(CHECKS),
             "kind_free_text": "Python stdlib orchestrator: seeded workload generators, reference model, oracles, reducer, known-finding matcher, evidence writer"},
        ],
        "checks": checks,
        "not_applicable": [{"property_id": p, "reason": PENDING_REASON} for p in ALL if p not in CHECKS],
        "notes": "Technique family: runtime monitoring. Exit 0 = held on what was observed, 1 = VIOLATION, 2 = inconclusive (never folded into the others). known_findings.txt lists genuine defects recorded rather than repaired.",
    }
    with open(os.path.join(ROOT, "MANIFEST.json"), "w") as f:
        json.dump(man, f, indent=1)
    print("MANIFEST.json: %d checks, %d not claimed" % (len(checks), len(man["not_applicable"])))
main()
