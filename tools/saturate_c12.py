#!/usr/bin/env python3
"""Offline discovery of panic sites (not a verdict-producing step): runs the C12 workload at many seeds and
prints every (site, entry) class with a shrunken witness, marking those not covered by known_findings.txt."""
import sys, os, json
sys.path.insert(0, os.path.dirname(os.path.dirname(os.path.abspath(__file__))))
from pv import core
from pv.checks import c12
core.build_worker(False)
seen = {}
for seed in range(int(sys.argv[1]), int(sys.argv[2])):
    run = c12.run(sys.argv[3] if len(sys.argv) > 3 else "quick", seed)
    for v in run.violations:
        k = (v["symptom"], v["shape"])
        known = any(f.matches(dict(v, property="C12")) for f in run.findings)
        if k not in seen:
            seen[k] = (known, v.get("witness"))
            print("seed", seed, "KNOWN" if known else "NEW  ", v["symptom"], "|", v["shape"], "|", json.dumps(v.get("witness"))[:400], flush=True)
print("classes:", len(seen), "new:", sum(1 for k, (kn, _) in seen.items() if not kn))
