#!/usr/bin/env python3
"""tools/show.py <witness.json | replay.json> : re-execute a relational witness and print everything."""
import sys, os, json
sys.path.insert(0, os.path.dirname(os.path.dirname(os.path.abspath(__file__))))
from pv import core, relcheck
from pv.gen import grel
from pv.ref import model
case = json.load(open(sys.argv[1]))
case = case.get("case", case)
w = core.Worker()
w.db_open("d", grel.db_stmts(case["db"]))
for t, d in case["db"].items(): print(t, d["cols"], d["rows"])
src = grel.pp_program(case["prog"])
print(src)
for dialect in ([case["dialect"]] if len(sys.argv) < 3 else sys.argv[2:]):
    o = relcheck.run_case(w, case["prog"], case["db"], "d", dialect)
    print("== dialect", dialect, "status", o.status)
    print(o.sql)
    print("frame(rq):", (o.raw or {}).get("rqcheck", {}).get("frame"))
    print("actual cols:", o.cols)
    for r in o.rows or []: print("   ", r)
    if o.model:
        print("model cols:", o.model.cols, "ordered" if o.model.okeys is not None else "bag", o.model.okeys)
        for r in o.model.rows: print("   ", r)
    print("obs:", {k: v for k, v in o.obs.items() if k != "shape"})
    for s in o.symptoms: print("SYMPTOM", s)
    if o.raw and "errors" in o.raw: print(o.raw["errors"])
