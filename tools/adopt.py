#!/usr/bin/env python3
"""tools/adopt.py <prop> <KF-id> <symptom-regex> <shape-regex> <replay-file> <what fails...>
Adopt a genuine defect as a known finding: copies the replay case to findings/ and appends the line."""
import sys, os, json, re
os.chdir(os.path.dirname(os.path.dirname(os.path.abspath(__file__))))
prop, kid, sym, shape, replay = sys.argv[1:6]
text = " ".join(sys.argv[6:])
d = json.load(open(replay))
case = d.get("case", d)
wpath = "findings/%s.json" % kid.replace("KF-", "")
json.dump(case, open(wpath, "w"), ensure_ascii=False)
assert re.fullmatch(sym, d["symptom"], re.S), (sym, d["symptom"])
assert re.fullmatch(shape, d.get("shape", ""), re.S), (shape, d.get("shape"))
line = "KNOWN-FINDING: property=%s id=%s symptom=%s shape=%s witness=%s :: %s\n" % (
    prop, kid, sym.replace(" ", "%20"), shape.replace(" ", "%20"), wpath, text)
open("known_findings.txt", "a").write(line)
print(line)
