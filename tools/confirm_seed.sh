#!/bin/bash
# tools/confirm_seed.sh <round> <NN>   e.g. tools/confirm_seed.sh 4 07
# Confirms a sub-agent's seeded change in ITS scratch worktree /tmp/w<round>_c<NN> (never in /repo):
#  - the patch touches compiler sources only (no tests, snapshots, docs)
#  - the unedited test suite passes with the change
#  - the demonstration fails with the change and passes against the unchanged tree's binary
# and, if all of that holds, copies patch.diff + demo + meta.json to seeded/r<round>_c<NN>/ and removes the worktree.
set -u
R=$1; N=$2
W=/tmp/w${R}_c${N}; O=/tmp/w${R}_c${N}_out
D=/verif/seeded/r${R}_c${N}
[ -d "$W" ] || { echo "no worktree $W"; exit 2; }
git -C "$W" diff > "$O/patch.confirmed.diff"
if git -C "$W" status --porcelain | grep -v '^ M' | grep -q .; then echo "NOTE: untracked/other changes:"; git -C "$W" status --porcelain | grep -v '^ M'; fi
bad=$(git -C "$W" diff --name-only | grep -Ev '^prqlc/(prqlc|prqlc-parser)/src/' | grep -v '^$')
bad2=$(git -C "$W" diff --name-only | grep -E '(/tests?/|\.snap$|/snapshots/|test\.rs$)')
if [ -n "$bad$bad2" ]; then echo "REJECT: patch touches non-source files: $bad $bad2"; exit 1; fi
echo "== files: $(git -C "$W" diff --name-only | tr '\n' ' ')"
echo "== tests with the change"
( cd "$W" && CARGO_BUILD_JOBS=12 cargo nextest run --workspace --no-fail-fast --offline --test-threads 8 2>&1 | tail -n 4 ) | tee "$O/tests.txt"
grep -q "613 passed" "$O/tests.txt" || { echo "REJECT: tests do not all pass"; exit 1; }
( cd "$W" && cargo build -p prqlc --offline 2>&1 | tail -n 1 )
demo=$(ls "$O"/demo.* 2>/dev/null | head -n 1)
[ -n "$demo" ] || { echo "REJECT: no demo"; exit 1; }
run_demo() { case "$1" in *.py) python3 "$1";; *.sh) bash "$1";; *) echo "unknown demo kind"; return 99;; esac; }
echo "== demo with the change"
run_demo "$demo" > "$O/demo_with.txt" 2>&1; rc1=$?
tail -n 3 "$O/demo_with.txt"
base="$O/demo_baseline.${demo##*.}"
sed "s#$W/target/debug/prqlc#/repo/target/debug/prqlc#g; s#$W/target/release/prqlc#/repo/target/debug/prqlc#g" "$demo" > "$base"
if ! grep -q "/repo/target/debug/prqlc" "$base"; then echo "WARN: demo does not name the worktree binary; baseline run uses PRQLC env only"; fi
echo "== demo against the unchanged tree"
PRQLC=/repo/target/debug/prqlc run_demo "$base" > "$O/demo_without.txt" 2>&1; rc0=$?
tail -n 3 "$O/demo_without.txt"
echo "== rc with=$rc1 without=$rc0"
if [ "$rc1" = 0 ] || [ "$rc0" != 0 ]; then echo "REJECT: demo does not discriminate"; exit 1; fi
mkdir -p "$D"
cp "$O/patch.confirmed.diff" "$D/patch.diff"
cp "$demo" "$D/"
python3 - "$O/meta.json" "$D/meta.json" "$W" <<'EOF'
import json, sys
m = json.load(open(sys.argv[1]))
m["confirmed"] = {"tests": "613 passed with the change in the sub-agent's scratch worktree (cargo nextest run --workspace --no-fail-fast --offline)",
                  "demo": "exit != 0 with the change; exit 0 against /repo/target/debug/prqlc built from the unchanged tree",
                  "worktree": sys.argv[3]}
json.dump(m, open(sys.argv[2], "w"), indent=1, ensure_ascii=False)
EOF
git -C /repo apply --check "$D/patch.diff" && echo "patch applies to /repo" || { echo "REJECT: patch does not apply to /repo"; exit 1; }
git -C /repo worktree remove --force "$W" && rm -rf "$O" && echo "ADOPTED $D (worktree removed)"
