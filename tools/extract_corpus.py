#!/usr/bin/env python3
"""Extract PRQL programs from /repo docs and tests into corpus/corpus.jsonl
(committed; re-run only to refresh)."""
import os, re, json, glob
REPO = "/repo"
out = []
seen = set()
def add(src, origin):
    src = src.strip("\n") + "\n"
    if src.strip() and src not in seen:
        seen.add(src); out.append({"src": src, "origin": origin})
for path in sorted(glob.glob(REPO + "/**/*.md", recursive=True)):
    if "/target/" in path or "/node_modules/" in path: continue
    txt = open(path, encoding="utf-8", errors="replace").read()
    for m in re.finditer(r"```prql([^\n]*)\n(.*?)```", txt, re.S):
        add(m.group(2), os.path.relpath(path, REPO) + ":" + m.group(1).strip())
for path in sorted(glob.glob(REPO + "/prqlc/prqlc/tests/integration/queries/*.prql")):
    add(open(path, encoding="utf-8").read(), os.path.relpath(path, REPO))
for path in sorted(glob.glob(REPO + "/web/**/*.prql", recursive=True)) + sorted(glob.glob(REPO + "/prqlc/prqlc/examples/**/*.prql", recursive=True)):
    if "/target/" in path: continue
    add(open(path, encoding="utf-8").read(), os.path.relpath(path, REPO))
# test-embedded raw strings
for path in sorted(glob.glob(REPO + "/prqlc/prqlc/src/**/*.rs", recursive=True)) + sorted(glob.glob(REPO + "/prqlc/prqlc/tests/**/*.rs", recursive=True)) + sorted(glob.glob(REPO + "/prqlc/prqlc-parser/src/**/*.rs", recursive=True)):
    txt = open(path, encoding="utf-8", errors="replace").read()
    for m in re.finditer(r'r#+"(.*?)"#+', txt, re.S):
        s = m.group(1)
        if len(s) < 4000 and re.search(r"\b(from|let|func|select|derive|prql)\b", s) and not re.search(r"\bSELECT\b|^\s*---", s):
            add(s, os.path.relpath(path, REPO))
with open("corpus/corpus.jsonl", "w", encoding="utf-8") as f:
    for o in out:
        f.write(json.dumps(o, ensure_ascii=False) + "\n")
print(len(out))
