#!/usr/bin/env python3
"""tools/triage.py <prop>: run a check in-process and print violations grouped by (symptom, shape)."""
import sys, os, json, collections, importlib
sys.path.insert(0, os.path.dirname(os.path.dirname(os.path.abspath(__file__))))
from pv import core
prop = sys.argv[1]; tier = sys.argv[2] if len(sys.argv) > 2 else "quick"; seed = int(sys.argv[3]) if len(sys.argv) > 3 else 0
mod = importlib.import_module("pv.checks." + prop.lower())
core.build_worker(False)
run = mod.run(tier, seed)
groups = collections.OrderedDict()
for v in run.violations:
    k = (v["symptom"], v.get("shape", ""))
    groups.setdefault(k, []).append(v)
fs = run.findings
print("violations: %d in %d classes" % (len(run.violations), len(groups)))
for (sym, shape), vs in sorted(groups.items(), key=lambda kv: -len(kv[1])):
    known = [f.id for f in fs if f.matches(dict(vs[0], property=prop))]
    print("-" * 100)
    print("%4d x %s   known=%s\n     shape: %s" % (len(vs), sym, known, shape))
    w = next((v for v in vs if v.get("witness")), vs[0])
    print("     detail:", str(w.get("detail"))[:400])
    wit = w.get("witness") or {}
    if "prql" in wit: print("     prql:\n" + "\n".join("       " + l for l in wit["prql"].split("\n")))
    elif wit: print("     witness:", json.dumps(wit)[:500])
cov = dict(run.coverage); cov.pop("samples", None)
print(json.dumps({k: v for k, v in cov.items() if not isinstance(v, (list,))}, indent=1, default=str)[:3000])
