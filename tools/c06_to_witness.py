#!/usr/bin/env python3
"""Reduce one side of a C06 replay file on its own symptom and write a witness for the
property that owns the symptom.  usage: c06_to_witness.py <replay.json> <base|rewritten> <PROP> <symptom> <out.json>"""
import sys, json
sys.path.insert(0, "/verif")
from pv import core, relcheck
from pv.gen import grel
d = json.load(open(sys.argv[1]))
c = d["case"]
side, prop, sym, out = sys.argv[2:6]
w = core.Worker()
w.db_open("d", grel.db_stmts(c["db"]))
rp, rdb = relcheck.reduce_case(w, c[side], c["db"], c["dialect"], prop, sym)
w.db_open("d", grel.db_stmts(rdb))
o = relcheck.run_case(w, rp, rdb, "d", c["dialect"])
print(grel.pp_program(rp))
print(o.symptoms)
print(o.sql)
print(relcheck.shape_of(rp))
if prop == "C07":
    json.dump({"src": grel.pp_program(rp), "dialect": c["dialect"], "prog": rp}, open(out, "w"))
else:
    json.dump({"prog": rp, "db": rdb, "dialect": c["dialect"], "prql": grel.pp_program(rp)}, open(out, "w"))
w.close()
