#!/bin/sh
# setup_cmd: build the verification worker offline from files on disk only.
set -e
cd "$(dirname "$0")/harness"
export CARGO_NET_OFFLINE=true
cargo build --release --offline
echo '{"op":"ping"}' | ./target/release/pv-worker
